"""C08 — layout analysis conserves content and keeps its hierarchy well-formed.

Monitor: a postcondition wrapper on pdfminer.layout.LTLayoutContainer.analyze
(vf/ref/c08mon.py).  Before the analysis it snapshots identity, order and
attributes of every descendant; the outermost invocation runs under a step
budget; afterwards a tree walker checks
  1 conservation: every glyph and every other item occurs exactly once, is the
    same object with unchanged attributes; only LTAnno / text line / text box /
    text group objects are new; figures are analysed iff LAParams.all_texts;
  2 the bbox of every line, box and group is exactly the union of its members';
  3 a line is horizontal or vertical (vertical only with detect_vertical), ends
    in exactly one LTAnno("\\n"), other inserted LTAnno are single spaces between
    two glyphs; consecutive glyphs of a horizontal line share a y-interval of
    positive length (x-interval in a vertical line); a box holds lines of its
    own orientation only;
  4 lines in a box: y1 non-increasing (x1 non-increasing in vertical boxes);
  5 text boxes carry index 0..n-1 in iteration order of their container;
  6 get_text() of every line / box / group == concatenation of its members';
  7 after the analysis no glyph is a direct child of an analysed container (page; figure with all_texts):
    every glyph sits in a text line, also when the container's own lines are all blank and when
    its text lives only in nested figures;
  plus: with boxes_flow given, the group hierarchy holds every box exactly once.

Workload: (a) LTPage objects built directly from glyph boxes (stub font), shapes,
images and nested figures; (b) generated PDFs through high_level.extract_pages,
also compared leaf by leaf with an un-analysed interpretation of the same file;
(c) the repository's sample PDFs.
"""
from __future__ import annotations

import io
import os
import random
import signal
import sys
from collections import Counter
from typing import Any, Dict, List, Optional, Tuple

from vf import REPO
from vf.common import StepBudgetExceeded, chash
from vf.gen import c08gen
from vf.ref import c08mon
from vf.ref.c08mon import MON

ID = "C08"
LEVEL = "exploration"
DESIGN_REF = "DESIGN.md#C08"
TECHNIQUE = ("runtime monitoring: postcondition wrapper on LTLayoutContainer.analyze (pre-state snapshot, tree walker, "
             "step budget) driven by generated glyph scenes, generated PDFs and the sample PDFs")
RULE = (
    "(a) scenes: a page box (letter, tiny, zero, negative origin, 2048^2, off-origin) with 0-400 glyph boxes drawn from blocks "
    "(paragraphs with aligned/ragged lines and word gaps, grids incl. touching/overlapping cells, vertical columns, overlapping "
    "piles, stairs, corner-turning runs (horizontal run then glyphs stacked under/over its last glyph, and transposed), zero-width/zero-height boxes, blank/empty/odd text, tiny glyphs, scatter, off-page/straddling/far (+-1e6) "
    "and huge glyphs, duplicates at identical positions; kept, reversed or shuffled order; 7% of the scenes hold figures only with the glyphs 1-3 figures deep and all_texts set, 7% hold only white-space / zero-area glyphs on the page and in its figures), interleaved with LTRect/LTLine/"
    "LTCurve/LTImage and figures (glyphs inside, nested to depth 3); all coordinates dyadic. LAParams families: default, typical, "
    "extreme (0, 2^-20, 1e-9, 1e6, 2^20), zero, huge, flow_none, flow_float, vertical, all_texts; boxes_flow in "
    "{None,-1,-0.5,0,0.5,1} or k/64. (b) PDFs of 1-3 pages with paragraphs, columns, rotated/sheared text, a vertical CID font, "
    "TJ gaps, rise, mixed sizes, forms (nested <=3) with text, forms that paint nothing (empty, state changes only, or only the Do of such a form), images, inline images, paths, /Rotate; the LTFigure tree of every page (laparams None and given) is compared with the Do/BI invocations of the generated content. (c) sample PDFs. "
    "distinct = distinct scene / file+parameters; non-trivial = at least 2 glyphs analysed. Not generated: NaN/inf coordinates, "
    "negative glyph widths/heights, negative margins (LAParams documents them as ratios), the same LTChar object placed twice, "
    "analysing a page twice, page boxes beyond 4096 units (cost of the Plane grid grows with the page area, not with n)."
)
ASSUMPTIONS = [
    "LTLayoutContainer.analyze is the single entry of layout analysis (LTPage inherits it; LTFigure.analyze calls it by name); the "
    "wrapper counts its invocations and a run without any is vacuous",
    "objects are identified by id(); the pre-state snapshot keeps every object alive, so ids are not reused during a case",
    "attributes are compared through a shallow copy of vars(obj); in-place mutation of a shared PDFGraphicState is not observed",
    "step budget 200000 + n^2 (2500 (log2 n + 1) + 300 cells) (n glyphs, cells = 50-unit grid cells of the page) is >= 20x the "
    "largest cost observed on the intact tree (evidence: budget_used_pct_bucket counters; a case above 5% is reported as "
    "inconclusive); cases of a shard run in ascending glyph count, so that a runaway is met on a small input first; the phases "
    "group_objects and group_textlines have their own allowances inside it (100000 + 6000 n steps for n glyphs; 100000 + 4000 m (cells "
    "+ m) for m lines; group_textboxes 100000 + 150 b^2 (b + cells) for b boxes), also >= 20x the largest cost seen; no budget depends on "
    "the LAParams values; the first shard that meets a budget hit raises a flag in the run's work directory and the other shards stop",
    "a text line outside any text box (direct child of the page) is how pdfminer keeps blank or zero-area glyphs; accepted as part of "
    "the hierarchy",
]
SHARD_TIMEOUT = {"quick": 1500, "thorough": 5400}

MON.budget_fn = c08mon.default_budget


def minimums(tier: str) -> Dict[str, int]:
    if tier == "quick":
        return {"evaluations": 2500, "distinct": 2400, "analyze_invocations": 4000, "pages_analysed": 2500, "budgeted_analyses": 2500,
                "items_conserved:glyph": 100000, "items_conserved:other": 8000, "containers_walked:line": 50000,
                "containers_walked:box": 30000, "containers_walked:group": 20000, "boxes_index_checked": 30000,
                "group_leaves_checked": 20000, "seen:la_family": 9, "seen:blocks": 13, "block:corner": 600, "line_pairs_overlap_checked:H": 40000, "line_pairs_overlap_checked:V": 3000, "pdf_pages": 100, "sample_pages": 40,
                "stress_pages": 4, "analyze_invocations:LTFigure": 1200, "containers_walked:unanalysed_figure": 1000,
                "multi_line_boxes:V": 40, "multi_line_boxes:H": 2500, "lines_outside_boxes": 4000, "inserted_spaces": 3000,
                "pdf_figure_trees_matched": 100, "pdf_figures_matched": 150, "pdf_empty_figures_kept": 40,
                "pdf_empty_figures_kept:all_texts_0": 8, "pdf_empty_figures_kept:all_texts_1": 8, "scene_empty_figures_kept": 150,
                "scene_family:figures_only": 120, "scene_family:blank_only": 120, "pdf_mode:forms_only": 5, "pdf_mode:blank_only": 5,
                "glyphless_container_with_text_figures:page": 120, "glyphless_container_with_text_figures:figure": 60,
                "containers_all_lines_blank:page": 120, "containers_all_lines_blank:figure": 40,
                "containers_with_all_glyphs_in_lines:page": 2000, "containers_with_all_glyphs_in_lines:figure": 600}
    return {"evaluations": 40000, "distinct": 38000, "analyze_invocations": 70000, "pages_analysed": 45000, "budgeted_analyses": 45000,
            "items_conserved:glyph": 2500000, "items_conserved:other": 150000, "containers_walked:line": 900000,
            "containers_walked:box": 600000, "containers_walked:group": 400000, "boxes_index_checked": 600000,
            "group_leaves_checked": 400000, "seen:la_family": 9, "seen:blocks": 13, "block:corner": 10000, "line_pairs_overlap_checked:H": 700000, "line_pairs_overlap_checked:V": 60000, "pdf_pages": 3000, "sample_pages": 250,
            "stress_pages": 8, "analyze_invocations:LTFigure": 25000, "containers_walked:unanalysed_figure": 20000,
            "multi_line_boxes:V": 1500, "multi_line_boxes:H": 50000, "lines_outside_boxes": 90000, "inserted_spaces": 70000,
            "pdf_figure_trees_matched": 3000, "pdf_figures_matched": 4500, "pdf_empty_figures_kept": 1200,
            "pdf_empty_figures_kept:all_texts_0": 250, "pdf_empty_figures_kept:all_texts_1": 250, "scene_empty_figures_kept": 3000,
            "scene_family:figures_only": 2500, "scene_family:blank_only": 2500, "pdf_mode:forms_only": 150, "pdf_mode:blank_only": 150,
            "glyphless_container_with_text_figures:page": 2500, "glyphless_container_with_text_figures:figure": 1200,
            "containers_all_lines_blank:page": 2500, "containers_all_lines_blank:figure": 800,
            "containers_with_all_glyphs_in_lines:page": 35000, "containers_with_all_glyphs_in_lines:figure": 12000}


# deterministic dear cases (n glyphs scattered over the page box, every glyph its own box with the "zero" parameters):
# [n, page box, LAParams family, boxes_flow]
STRESS = {
    "quick": [[100, [0, 0, 50, 50], "zero", 0.5], [300, [0, 0, 612, 792], "zero", 0.5], [200, [0, 0, 612, 792], "huge", None],
              [150, [0, 0, 2048, 2048], "default", -1]],
    "thorough": [[200, [0, 0, 50, 50], "zero", 0.5], [400, [0, 0, 612, 792], "zero", 0.5], [400, [0, 0, 612, 792], "huge", None],
                 [400, [0, 0, 2048, 2048], "default", -1], [160, [0, 0, 1, 1], "zero", 1], [400, [0, 0, 4096, 64], "zero", 0],
                 [400, [0, 0, 612, 792], "vertical", 0.5], [400, [-306, -396, 306, 396], "typical", -0.5]],
}


def gen_stress(st: List[Any], seed: int) -> Dict[str, Any]:
    (n, bbox, fam, flow) = st
    rng = random.Random("C08/stress/%d/%r" % (seed, st))
    items: List[Any] = []
    while len(items) < n:
        items += c08gen.blk_scatter(rng, bbox, n - len(items))
    la = c08gen.gen_la(rng, fam)
    la["boxes_flow"] = flow
    return {"bbox": list(bbox), "rotate": 0, "items": items, "la": la, "la_family": fam, "blocks": {"scatter": 1}}


def shards(tier: str, seed: int) -> List[Dict[str, Any]]:
    qk = tier == "quick"
    out: List[Dict[str, Any]] = []
    for i in range(64 if qk else 192):
        out.append({"kind": "scene", "sub": i, "n": 45 if qk else 250})
    for i in range(12 if qk else 48):
        out.append({"kind": "pdf", "sub": i, "n": 10 if qk else 60})
    for i, st in enumerate(STRESS[tier]):
        out.append({"kind": "stress", "sub": i, "stress": st})
    files = sample_files(tier)
    k = 4 if qk else 12
    for i in range(k):
        out.append({"kind": "samples", "sub": i, "files": files[i::k]})
    return out


# ----------------------------------------------------------------------------
def _exc_key(e: BaseException) -> str:
    tb = e.__traceback__
    fn = "?"
    while tb is not None:
        if "pdfminer" in tb.tb_frame.f_code.co_filename:
            fn = tb.tb_frame.f_code.co_name
        tb = tb.tb_next
    return "exception:%s:%s" % (type(e).__name__, fn)


def _leaves(container: Any, acc: Counter) -> None:
    """Multiset of the content items below a layout object (everything the analysis must conserve)."""
    from pdfminer.layout import LTAnno, LTChar, LTContainer, LTFigure, LTTextBox, LTTextLine

    stack = [container]
    while stack:
        c = stack.pop()
        for o in c._objs:
            if isinstance(o, LTChar):
                acc[("LTChar", tuple(o.bbox), o.get_text(), o.fontname, tuple(o.matrix))] += 1
            elif isinstance(o, LTAnno):
                continue
            elif isinstance(o, (LTTextBox, LTTextLine)):
                stack.append(o)
            elif isinstance(o, LTFigure):
                # (the name of an inline image's figure is the id() of a transient object: not comparable across runs)
                acc[("LTFigure", tuple(o.bbox), tuple(o.matrix))] += 1
                stack.append(o)
            elif isinstance(o, LTContainer):
                acc[(type(o).__name__, tuple(o.bbox))] += 1
                stack.append(o)
            else:
                acc[(type(o).__name__, tuple(o.bbox), tuple(getattr(o, "pts", ())))] += 1


def _scene_leaves(items: List[Any], acc: Counter) -> None:
    for it in items:
        k = it[0]
        if k == "c":
            acc[("glyph", (it[1], it[2], it[1] + it[3], it[2] + it[4]), it[5])] += 1
        elif k == "f":
            acc[("figure",)] += 1
            _scene_leaves(it[3], acc)
        else:
            acc[(k,)] += 1


def _tree_leaves_simple(page: Any) -> Counter:
    from pdfminer.layout import LTChar, LTCurve, LTFigure, LTImage, LTLine, LTRect

    full: Counter = Counter()
    _leaves(page, full)
    acc: Counter = Counter()
    for key, n in full.items():
        if key[0] == "LTChar":
            acc[("glyph", key[1], key[2])] += n
        elif key[0] == "LTFigure":
            acc[("figure",)] += n
        else:
            acc[({"LTRect": "r", "LTLine": "l", "LTCurve": "v", "LTImage": "i"}.get(key[0], key[0]),)] += n
    return acc


def _diff(a: Counter, b: Counter) -> str:
    lost = list((a - b).items())[:4]
    extra = list((b - a).items())[:4]
    return "missing %r, surplus %r" % (lost, extra)


# ----------------------------------------------------------------------------
def run_scene(scene: Dict[str, Any], rec: Any = None) -> List[Tuple[str, str]]:
    MON.install()
    MON.drain()
    page, _counts = c08gen.build_page(scene)
    la = c08gen.make_la(scene["la"])
    fails: List[Tuple[str, str]] = []
    try:
        page.analyze(la)
    except StepBudgetExceeded as e:
        fails.append(("step_budget:" + MON.budget_phase_key, "%s in %s (glyphs=%d)" % (e, MON.budget_phase or "analyze (overall budget)", _nglyphs(scene["items"]))))
    except RecursionError as e:
        fails.append(("exception:RecursionError", repr(e)[:200]))
    except Exception as e:  # noqa: BLE001
        fails.append((_exc_key(e), "%s: %s" % (type(e).__name__, e)))
    tops = list(MON.tops)
    phases = dict(MON.phase_pct)
    mfails, stats = MON.drain()
    fails.extend(mfails)
    if rec is not None:
        _phase_stats(phases, rec, bool(fails))
    if not fails:
        want: Counter = Counter()
        _scene_leaves(scene["items"], want)
        got = _tree_leaves_simple(page)
        if want != got:
            fails.append(("scene_conservation", "content of the analysed page differs from the scene: " + _diff(want, got)))
    if stats.get("analyze_invocations", 0) == 0:
        fails.append(("harness:analyze_not_observed", "the wrapper saw no invocation"))
    if rec is not None:
        for k, v in stats.items():
            rec.count(k, v)
        rec.count("pages_analysed")
        rec.count("scene_pages")
        _budget_stats(tops, rec, bool(fails))
    return fails


def _phase_stats(phases: Dict[str, float], rec: Any, failed: bool) -> None:
    for name, pct in phases.items():
        rec.count("phase_allowance_used_pct_bucket:%s:%s" % (name, _bucket(pct)))
        if pct > 5 and not failed:
            rec.inconclusive("phase_allowance_margin_below_20x:" + name)


def _budget_stats(tops: List[Tuple[int, int, int]], rec: Any, failed: bool) -> None:
    for (_n, steps, budget) in tops:
        pct = 100.0 * steps / budget
        rec.count("budget_used_pct_bucket:%s" % _bucket(pct))
        rec.count("steps_total", steps)
        rec.count("budgeted_analyses")
        if pct > 5 and not failed:
            rec.inconclusive("budget_margin_below_20x")


def _bucket(p: float) -> str:
    for lim in (0.1, 0.5, 1, 2, 5, 10, 25, 50, 100):
        if p <= lim:
            return "<=%g" % lim
    return ">100"


def _nglyphs(items: List[Any]) -> int:
    return sum(1 if it[0] == "c" else _nglyphs(it[3]) if it[0] == "f" else 0 for it in items)


def _empty_figs(items: List[Any]) -> int:
    return sum((1 if not it[3] else _empty_figs(it[3])) for it in items if it[0] == "f")


def pick_n(rng: random.Random, tier: str, la: Dict[str, Any]) -> int:
    """Number of glyphs.  The hierarchical grouping (boxes_flow given) is cubic once a box as large as the page
    has formed, a page of 400 glyphs then costs a minute under the step monitor: such pages are rare in the
    thorough tier (mostly <= 200 there) and capped at 160 glyphs in the quick tier; with boxes_flow=None the full
    range 0..400 is cheap and used in both tiers."""
    r = rng.random()
    if r < 0.04:
        return rng.choice([0, 0, 1, 1, 2])
    if r < 0.47:
        return rng.randint(2, 25)
    if r < 0.84:
        return rng.randint(20, 80)
    heavy = la["boxes_flow"] is not None
    if r < 0.975:
        n = rng.randint(80, 160)
        return 60 + n // 2 if heavy and tier == "quick" else n          # quick: 100..140
    n = rng.randint(160, 400)
    if heavy and tier == "quick":
        return 120 + n // 10                                           # quick: 136..160
    if heavy and n > 200 and rng.random() > 0.06:
        n = 160 + (n - 160) // 6
    return n


def gen_scene_case(seed_str: str, tier: str) -> Dict[str, Any]:
    rng = random.Random(seed_str)
    fam = rng.choice(c08gen.LA_FAMILIES)
    la = c08gen.gen_la(rng, fam)
    r = rng.random()
    if r < 0.07:
        return c08gen.gen_special_scene(rng, "figures_only", fam, la)
    if r < 0.14:
        return c08gen.gen_special_scene(rng, "blank_only", fam, la)
    n = pick_n(rng, tier, la)
    return c08gen.gen_scene(rng, n, fam, dense_cap=100 if tier == "quick" else 160, la=la)


# ----------------------------------------------------------------------------
def _observed_figtree(container: Any) -> List[Any]:
    """[name, children] for every LTFigure below a layout object, in order; a figure holding an LTImage -> "image"."""
    from pdfminer.layout import LTFigure, LTImage

    out: List[Any] = []
    for o in container._objs:
        if isinstance(o, LTFigure):
            name = "<inline>" if (str(o.name).isdigit() or str(o.name).startswith("inline")) else str(o.name)   # inline images carry a generated name
            if any(isinstance(k, LTImage) for k in o._objs):
                out.append([name, "image"])
            else:
                out.append([name, _observed_figtree(o)])
    return out


def _count_nodes(tree: Any) -> int:
    return sum(1 + (_count_nodes(kids) if isinstance(kids, list) else 0) for _n, kids in tree)


def _raw_pages(data: bytes, password: str = "", maxpages: int = 0) -> List[Counter]:
    from pdfminer.converter import PDFPageAggregator
    from pdfminer.pdfinterp import PDFPageInterpreter, PDFResourceManager
    from pdfminer.pdfpage import PDFPage

    rm = PDFResourceManager()
    dev = PDFPageAggregator(rm, laparams=None)
    it = PDFPageInterpreter(rm, dev)
    out = []
    for page in PDFPage.get_pages(io.BytesIO(data), maxpages=maxpages, password=password):
        it.process_page(page)
        acc: Counter = Counter()
        lt = dev.get_result()
        _leaves(lt, acc)
        acc["__figtree__"] = _observed_figtree(lt)  # type: ignore[assignment]
        out.append(acc)
    return out


def run_pdf(data: bytes, la_spec: Dict[str, Any], rec: Any = None, password: str = "", maxpages: int = 0,
            counter: str = "pdf_pages", figtrees: Optional[List[Any]] = None) -> List[Tuple[str, str]]:
    from pdfminer.high_level import extract_pages

    MON.install()
    MON.drain()
    fails: List[Tuple[str, str]] = []
    la = c08gen.make_la(la_spec)
    try:
        raw = _raw_pages(data, password, maxpages)
    except Exception as e:  # noqa: BLE001  interpretation problems belong to other properties
        if rec is not None:
            rec.inconclusive("raw_interpretation:" + type(e).__name__)
        return []
    rawtrees = [r.pop("__figtree__", []) for r in raw]
    if figtrees is not None:
        # every Do / BI of the content is one figure of the page, in order, nesting preserved - also a form that
        # paints nothing (laparams=None here, laparams given below)
        for i, (want, got) in enumerate(zip(figtrees, rawtrees)):
            if want != got:
                fails.append(("pdf_figure_tree:laparams_none", "page %d: figures %r, the content invokes %r" % (i, got, want)))
                break
    npages = 0
    try:
        for i, page in enumerate(extract_pages(io.BytesIO(data), password=password, maxpages=maxpages, laparams=la)):
            npages += 1
            got: Counter = Counter()
            _leaves(page, got)
            if i >= len(raw) or got != raw[i]:
                fails.append(("pdf_conservation", "page %d: analysed page differs from the un-analysed interpretation: %s"
                              % (i, _diff(raw[i] if i < len(raw) else Counter(), got))))
            if figtrees is not None and i < len(figtrees):
                tree = _observed_figtree(page)
                if tree != figtrees[i]:
                    fails.append(("pdf_figure_tree:analysed", "page %d: figures %r, the content invokes %r (all_texts=%r)"
                                  % (i, tree, figtrees[i], la_spec["all_texts"])))
                elif rec is not None:
                    rec.count("pdf_figure_trees_matched")
                    rec.count("pdf_figures_matched", _count_nodes(tree))
                    rec.count("pdf_empty_figures_kept", c08gen.count_empty(tree))
                    rec.count("pdf_empty_figures_kept:all_texts_%d" % bool(la_spec["all_texts"]), c08gen.count_empty(tree))
            if rec is not None:
                rec.count(counter)
                rec.count("pages_analysed")
                rec.count("pdf_glyphs", sum(n for k, n in got.items() if k[0] == "LTChar"))
    except StepBudgetExceeded as e:
        fails.append(("step_budget:" + MON.budget_phase_key, "%s in %s" % (e, MON.budget_phase or "analyze (overall budget)")))
    except RecursionError as e:
        fails.append(("exception:RecursionError", repr(e)[:200]))
    except Exception as e:  # noqa: BLE001
        fails.append((_exc_key(e), "%s: %s" % (type(e).__name__, e)))
    tops = list(MON.tops)
    phases = dict(MON.phase_pct)
    mfails, stats = MON.drain()
    fails.extend(mfails)
    if rec is not None:
        _budget_stats(tops, rec, bool(fails))
        _phase_stats(phases, rec, bool(fails))
    if npages and stats.get("analyze_invocations", 0) < npages:
        fails.append(("harness:analyze_not_observed", "%d pages, %d invocations" % (npages, stats.get("analyze_invocations", 0))))
    if rec is not None:
        for k, v in stats.items():
            rec.count(k, v)
    return fails


# ----------------------------------------------------------------------------
SAMPLES_QUICK = ["simple1.pdf", "simple2.pdf", "simple3.pdf", "simple4.pdf", "simple5.pdf", "jo.pdf", "font-size-test.pdf",
                 "sampleOneByteIdentityEncode.pdf", "contrib/issue-449-horizontal.pdf", "contrib/issue-449-vertical.pdf",
                 "contrib/pr-00530-ml-lines.pdf", "contrib/issue_566_test_1.pdf", "contrib/issue_566_test_2.pdf",
                 "contrib/issue-1008-inline-ascii85.pdf", "contrib/matplotlib.pdf", "contrib/issue-625-identity-cmap.pdf"]
PASSWORDS = {"encryption/aes-128.pdf": "foo", "encryption/aes-128-m.pdf": "foo", "encryption/aes-256.pdf": "foo",
             "encryption/aes-256-m.pdf": "foo", "encryption/aes-256-r6.pdf": "usersecret", "encryption/rc4-128.pdf": "foo",
             "encryption/rc4-40.pdf": "foo", "encryption/base.pdf": ""}


def sample_files(tier: str) -> List[str]:
    root = os.path.join(REPO, "samples")
    if tier == "quick":
        return [f for f in SAMPLES_QUICK if os.path.exists(os.path.join(root, f))]
    out = []
    for d, _dirs, fs in sorted(os.walk(root)):
        for f in sorted(fs):
            if f.endswith(".pdf"):
                out.append(os.path.relpath(os.path.join(d, f), root))
    return out


SAMPLE_LA = [
    {"line_overlap": 0.5, "char_margin": 2.0, "line_margin": 0.5, "word_margin": 0.1, "boxes_flow": 0.5, "detect_vertical": False, "all_texts": False},
    {"line_overlap": 0.5, "char_margin": 2.0, "line_margin": 0.5, "word_margin": 0.1, "boxes_flow": None, "detect_vertical": True, "all_texts": True},
    {"line_overlap": 0.25, "char_margin": 1.0, "line_margin": 1.0, "word_margin": 0.5, "boxes_flow": -1, "detect_vertical": True, "all_texts": True},
    {"line_overlap": 0, "char_margin": 5.0, "line_margin": 0.125, "word_margin": 0, "boxes_flow": 1, "detect_vertical": False, "all_texts": True},
]


def run_sample(rel: str, la_i: int, maxpages: int, rec: Any = None) -> List[Tuple[str, str]]:
    path = os.path.join(REPO, "samples", rel)
    with open(path, "rb") as f:
        data = f.read()
    return run_pdf(data, SAMPLE_LA[la_i], rec, PASSWORDS.get(rel, ""), maxpages, "sample_pages")


# ----------------------------------------------------------------------------
MAX_FAILING_CASES = 8
_FAILING = [0]


class _StopShard(BaseException):
    """Raised from a timer signal when another shard of the same run has met a runaway."""


def _flag_path() -> Optional[str]:
    # vf.worker is started as `worker <check> <workdir>/specNNNNN.json <workdir>/outNNNNN.json`; the runner removes the workdir
    if len(sys.argv) >= 4 and os.path.basename(sys.argv[2]).startswith("spec"):
        return os.path.join(os.path.dirname(os.path.abspath(sys.argv[2])), "c08-runaway.flag")
    return None


def _flag_is_up() -> bool:
    p = _flag_path()
    return p is not None and os.path.exists(p)


def _watch_flag(on: bool) -> None:
    """A budget hit may take minutes on a large page.  The first shard that meets one (small pages come first, so
    within seconds) raises a flag in the run's work directory; a 1 s timer in every other shard sees it and abandons
    the shard: the run is a violation already, waiting for every shard to exhaust its own budget adds nothing."""
    if _flag_path() is None or not hasattr(signal, "setitimer"):
        return
    if not on:
        signal.setitimer(signal.ITIMER_REAL, 0)
        return

    def tick(_sig: int, _frm: Any) -> None:
        if _flag_is_up():
            signal.setitimer(signal.ITIMER_REAL, 0)
            raise _StopShard()

    signal.signal(signal.SIGALRM, tick)
    signal.setitimer(signal.ITIMER_REAL, 1.0, 1.0)


def _runaway(fails: List[Tuple[str, str]]) -> bool:
    """Should the shard stop?  A budget hit costs minutes, and a defect that duplicates content can make
    every further (larger) case dearer: once a budget hit or MAX_FAILING_CASES failing cases are recorded
    the run is a violation anyway (the Recorder keeps 3 cases per key), so the rest of the shard is skipped."""
    if fails:
        _FAILING[0] += 1
    hit = any(k.startswith("step_budget") or k.startswith("exception:MemoryError") for k, _ in fails)
    if hit and _flag_path() is not None:
        try:
            open(_flag_path(), "w").close()  # type: ignore[arg-type]
        except OSError:
            pass
    return hit or _FAILING[0] >= MAX_FAILING_CASES or _flag_is_up()


def run_shard(spec: Dict[str, Any], rec: Any) -> None:
    _watch_flag(True)
    try:
        _run_shard(spec, rec)
    except _StopShard:
        rec.count("shards_abandoned_after_runaway_elsewhere")
    finally:
        _watch_flag(False)


def _run_shard(spec: Dict[str, Any], rec: Any) -> None:
    from vf.common import quiet_logging

    quiet_logging()
    if _flag_is_up():
        rec.count("shards_abandoned_after_runaway_elsewhere")
        return
    tier = spec["tier"]
    kind = spec["kind"]
    if kind == "scene":
        cases = []
        for i in range(spec["n"]):
            s = "C08/%d/%d/%d" % (spec["seed"], spec["sub"], i)
            scene = gen_scene_case(s, tier)
            cases.append((_nglyphs(scene["items"]), i, scene))
        cases.sort(key=lambda c: c[:2])     # small pages first: a runaway then costs a small budget
        for pos, (_ng, i, scene) in enumerate(cases):
            fails = run_scene(scene, rec)
            ng = _nglyphs(scene["items"])
            rec.case(chash(scene["bbox"], scene["items"], scene["la"]), ng >= 2)
            rec.see("la_family", scene["la_family"])
            rec.count("la_family:" + scene["la_family"])
            rec.count("scene_family:" + scene.get("special", "mixed"))
            if not fails:
                rec.count("scene_empty_figures_kept", _empty_figs(scene["items"]))
            rec.count("boxes_flow:%r" % (scene["la"]["boxes_flow"],) if scene["la"]["boxes_flow"] in c08gen.BOXES_FLOW else "boxes_flow:other")
            rec.count("detect_vertical:%d" % bool(scene["la"]["detect_vertical"]))
            rec.count("all_texts:%d" % bool(scene["la"]["all_texts"]))
            rec.count("glyphs_bucket:%s" % ("0" if ng == 0 else "1" if ng == 1 else "2-25" if ng <= 25 else "26-80" if ng <= 80 else "81-160" if ng <= 160 else "161-400"))
            for b, n in scene["blocks"].items():
                rec.see("blocks", b)
                rec.count("block:" + b, n)
            for k, detail in fails:
                rec.fail(k, {"kind": "scene", "scene": scene}, detail + " | la=%r glyphs=%d" % (scene["la"], ng))
            if rec.want_sample() and 3 <= ng <= 8 and len(scene["items"]) <= 10:
                rec.sample({"scene": scene})
            if _runaway(fails):
                rec.count("cases_skipped_after_budget_hit", len(cases) - pos - 1)
                break
    elif kind == "stress":
        scene = gen_stress(spec["stress"], spec["seed"])
        fails = run_scene(scene, rec)
        rec.case(chash(scene["bbox"], scene["items"], scene["la"]), True)
        rec.count("stress_pages")
        for k, detail in fails:
            rec.fail(k, {"kind": "scene", "scene": scene}, detail + " | stress %r" % (spec["stress"],))
    elif kind == "pdf":
        for i in range(spec["n"]):
            s = "C08/pdf/%d/%d/%d" % (spec["seed"], spec["sub"], i)
            case = c08gen.gen_pdf(random.Random(s))
            fails = run_pdf(case["pdf"], case["la"], rec, figtrees=case["figtrees"])
            rec.case(chash(case["pdf"], case["la"]), True)
            rec.see("la_family", case["la_family"])
            rec.count("pdf_la_family:" + case["la_family"])
            rec.count("pdf_docs")
            for f in case["features"]:
                rec.see("pdf_features", f)
            rec.count("pdf_mode:" + case["mode"])
            for k, detail in fails:
                rec.fail(k, {"kind": "pdf", "pdf": case["pdf"], "la": case["la"], "figtrees": case["figtrees"]}, detail + " | la=%r" % (case["la"],))
            if _runaway(fails):
                rec.count("cases_skipped_after_budget_hit", spec["n"] - i - 1)
                break
    elif kind == "samples":
        maxpages = 2 if tier == "quick" else 6
        for rel in spec["files"]:
            for la_i in range(len(SAMPLE_LA)):
                if tier == "quick" and la_i >= 2 and rel not in SAMPLES_QUICK[:8]:
                    continue
                fails = run_sample(rel, la_i, maxpages, rec)
                rec.case(chash("sample", rel, la_i), True)
                rec.count("sample_runs")
                rec.see("sample_files", rel)
                for k, detail in fails:
                    rec.fail(k, {"kind": "sample", "file": rel, "la_i": la_i, "maxpages": maxpages}, "%s: %s" % (rel, detail))
                if _runaway(fails):
                    rec.count("cases_skipped_after_budget_hit")
                    return
    else:
        raise ValueError(kind)


def replay(case: Dict[str, Any]) -> List[Tuple[str, str]]:
    from vf.common import quiet_logging

    quiet_logging()
    if case["kind"] == "scene":
        return run_scene(case["scene"], None)
    if case["kind"] == "pdf":
        return run_pdf(case["pdf"], case["la"], None, figtrees=case.get("figtrees"))
    return run_sample(case["file"], case["la_i"], case.get("maxpages", 2), None)
