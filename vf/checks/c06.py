"""C06 — simple fonts: code -> Unicode / advance follow encoding, glyph names, ToUnicode, Widths.

Workload: generated simple-font dictionaries (vf.gen.c06_fonts) — Type1, MMType1, TrueType, Type3; /Encoding
absent / name / dictionary with BaseEncoding + Differences (several runs, overlapping runs, names from every branch
of the AGL algorithm and names without a mapping); optional /ToUnicode (bfchar, bfrange increment and array forms,
1-3 character targets); optional embedded Type 1 program whose clear-text header carries the built-in encoding;
/Widths + /FirstChar (short tables) + /MissingWidth; Type3 /FontMatrix; standard-14 fonts without /Widths.  One page
per font shows ALL 256 codes; the page is interpreted with PDFPageInterpreter + PDFPageAggregator(laparams=None)
and every LTChar's get_text()/adv is compared with the reference expectation.  pdfminer.encodingdb.name2unicode and
EncodingDB.get_encoding are also driven directly.

Oracle: precedence ToUnicode -> glyph name by encoding through the AGL algorithm (vf.ref.agl, written from the AGL
specification; list names restricted to an independently derived subset) -> '(cid:N)'; base encodings from stdlib
cp1252 / mac_roman with the Annex D.2 exceptions and a transcribed StandardEncoding (vf.ref.c06_enc); advance =
Widths[code-FirstChar] | MissingWidth | 0, /1000 (or x FontMatrix[0] for Type3) x font size; standard-14 advances
from an AFM excerpt.
"""
from __future__ import annotations

import io
import random
from typing import Any, Dict, List, Optional, Tuple

from vf.common import chash
from vf.gen import c06_fonts as G
from vf.ref import agl
from vf.ref.c06_enc import ENCODINGS, SKIP

ID = "C06"
LEVEL = "exploration"
DESIGN_REF = "DESIGN.md#C06"
TECHNIQUE = "generated font dictionaries, exhaustive over the 256 codes of each, reference model comparison"
RULE = (
    "deterministic part (seed independent): every base encoding x every simple-font subtype (+ standard-14 faces "
    "with /Encoding absent), every reference list name / every no-mapping name / boundary uniXXXX,uXXXX..uXXXXXX names "
    "placed in a Differences array and in a Type 1 header, and the same names driven through name2unicode / "
    "get_encoding directly; random part: font dictionaries drawn per sub-family (base, diff, overlap, tounicode, "
    "widths, fontfile, ff_enc, std14, t3, traps, ff_traps, ff_std, std14_tu, t3_shear, t3_missing) with random Differences runs "
    "(direct or indirect array, empty), ToUnicode subsets (bfchar, bfrange increment/array, 1-3 character targets, "
    "flate or not, with/without begincmap), Widths/FirstChar/MissingWidth tables (ints, reals, indirect array, indirect "
    "items, or one indirect object referenced from every position that holds the same value), FontMatrix, Type 1 header layout (EOL style, comments and strings that look like entries, several "
    "entries per line, flate), font as direct or indirect object, table or stream xref (fonts in object streams), "
    "font shown again on a later page (font cache), pages whose /Font dictionary holds 2-3 fonts mixing indirect "
    "references and inline dictionaries in every order (ID DI DD I= IDI DID II ID= I=D DDI IDD; '=' the same object "
    "under a second name), each font judged by its own expectation, text layout (Tj per code / rows / TJ arrays, hex or literal "
    "strings, ascending / descending / permuted code order). All 256 codes of every font are shown. One evaluation "
    "= one font (256 code comparisons, counted in codes_text_judged / codes_adv_judged) or one directly driven name / "
    "Differences array; distinct = distinct font cases or names; non-trivial = a font with >=100 judged codes, or "
    "any direct case. Base font names include subset-tagged standard-14 names and aliases (ABCDEF+Times-Roman, "
    "XYZABC+Arial,Bold ...) with their own /Widths and embedded program: by 9.6.4 these are subsets of embedded fonts, "
    "not standard fonts. Differences runs start at 0, end at 255 by the running count, or name 255 explicitly; none "
    "runs past 255. NOT generated (ambiguous): a standard-14 base font, or one of the alternative names the PDF "
    "Reference lists for them (Arial, TimesNewRoman, CourierNew...), together with /Widths or an embedded program; "
    "composite names with unknown components; lower-case uni/u hex digits; symbolic fonts; MacExpertEncoding; "
    "Type1/TrueType without /Encoding unless standard-14 or embedded Type 1; Type3 /Encoding without /BaseEncoding; "
    "/Encoding dictionary without /BaseEncoding on an embedded font; FontMatrix / FontBBox with indirect items. Type3 with a non-zero MissingWidth and codes outside "
    "FirstChar..LastChar (t3_missing): Table 112 says advance 0, Table 122 says MissingWidth (glyph space, through "
    "FontMatrix); both readings are accepted, any other value is a violation. "
    "Left out of the oracle: WinAnsi 0x7F,0x81,0x8D,0x8F,0x90,0x9D (undefined or bullet); WinAnsi 0xA0 / MacRoman "
    "0xCA accept space or nbsp, WinAnsi 0xAD accepts hyphen or soft hyphen; standard-14 advances only for codes whose "
    "glyph is a standard Latin glyph of the face with a width in the reference excerpt (Courier*, Helvetica, "
    "Times-Roman)."
)
ASSUMPTIONS = [
    "stdlib codecs cp1252 and mac_roman, unicodedata names, zlib are correct",
    "the reference glyph-list subset (vf.ref.agl.LIST, 369 names) and the StandardEncoding / AFM excerpts in vf.ref.c06_enc are transcribed correctly (they were cross-read once against the Annex D tables; nothing is imported from pdfminer)",
    "vf.gen.pdfw writes conformant files and pdfminer's parser/interpreter deliver the shown codes to the device in content order (checked: exactly 256 LTChar per page)",
    "Differences runs that overlap are read sequentially (a later entry for the same code replaces an earlier one)",
    "a standard-14 advance is judged only for codes whose glyph is a standard Latin glyph of the face",
]
SHARD_TIMEOUT = {"quick": 600, "thorough": 3600}

# fonts of one page's /Font dictionary: I = indirect reference, D = inline dictionary, '=' = the previous font again
MIXED_PATTERNS = ["ID", "DI", "DD", "I=", "IDI", "DID", "II", "ID=", "I=D", "DDI", "IDD"]

FAMILIES = ["base", "diff", "overlap", "tounicode", "widths", "fontfile", "ff_enc", "std14", "t3", "traps", "ff_traps", "ff_std", "std14_tu", "t3_shear", "t3_missing"]
# Features on which a defect was found (and repaired) are generated as their own sub-families, never inside the
# others: traps / ff_traps (uni/u names of misleading shape), ff_std (/Encoding StandardEncoding def in the Type 1
# header), std14_tu (standard-14 font + ToUnicode), t3_shear (oblique FontMatrix).  Their failure keys are specific
# (text:diff:trap_*, text:builtin_std, adv:std14_*+tounicode, adv:type3_shear_*), so that a finding could be listed
# for one of them without hiding anything else.  TAGGED adds the family name to EVERY key of a family (unused now).
TAGGED: List[str] = []


def minimums(tier: str) -> Dict[str, int]:
    q = tier == "quick"
    return {
        "evaluations": 4000 if q else 90000,
        "distinct": 3000 if q else 55000,
        "fonts": 1500 if q else 58000,
        "codes_text_judged": 300000 if q else 12000000,
        "codes_adv_judged": 280000 if q else 11000000,
        "type1_header_parser_calls": 200 if q else 8000,
        "type1_header_entries": 12000 if q else 500000,
        "tounicode_codes_judged": 12000 if q else 500000,
        "diff_codes_judged": 8000 if q else 300000,
        "direct_name2unicode": 2500 if q else 40000,
        "direct_get_encoding": 100 if q else 3000,
        "pages_with_reused_font": 60 if q else 3000,
        "adv_src_type3_missing_either": 8000 if q else 300000,
        "type3_fonts_widths_one_object_referenced_twice": 25 if q else 1000,
        "fonts_widths_one_object_referenced_twice": 120 if q else 5000,
        "fonts_subset_tag_plus_std14_name": 300 if q else 12000,
        "fonts_subset_tag_plus_std14_name_builtin_encoding": 40 if q else 1600,
        "diff_names_for_code_255": 150 if q else 6000,
        "diff_names_for_code_0": 60 if q else 2500,
        "pages_with_several_fonts": 150 if q else 6000,
        "font_dict_inline_after_indirect": 50 if q else 2000,
        "font_dict_indirect_after_inline": 30 if q else 1200,
        "font_dict_inline_after_inline": 30 if q else 1200,
        "font_dict_indirect_after_indirect": 10 if q else 400,
        "font_dict_indirect_after_same_indirect": 25 if q else 1000,
        "seen:subtype": 4,
        "seen:tsrc": 30,
        "seen:wsrc": 12,
        "seen:family": len(FAMILIES),
    }


def shards(tier: str, seed: int) -> List[Dict[str, Any]]:
    out: List[Dict[str, Any]] = []
    for k in range(8):
        out.append({"kind": "det", "part": k, "of": 8})
    nrand = 16 if tier == "quick" else 96
    per = 6 if tier == "quick" else 40
    for k in range(nrand):
        out.append({"kind": "rand", "sub": k, "per_family": per})
    return out


# --------------------------------------------------------------------------
# running pdfminer
# --------------------------------------------------------------------------
def _exc_key(e: BaseException) -> str:
    tb = e.__traceback__
    fn = "?"
    while tb is not None:
        if "pdfminer" in tb.tb_frame.f_code.co_filename:
            fn = tb.tb_frame.f_code.co_name
        tb = tb.tb_next
    return "exception:%s:%s" % (type(e).__name__, fn)


_HOOK = {"calls": 0, "entries": 0, "installed": False}


def _install_hook() -> None:
    if _HOOK["installed"]:
        return
    from pdfminer import pdffont

    orig = pdffont.Type1FontHeaderParser.get_encoding

    def get_encoding(self):  # observation only: was the Type 1 header branch reached, with how many entries
        r = orig(self)
        _HOOK["calls"] += 1
        _HOOK["entries"] += len(r)
        return r

    pdffont.Type1FontHeaderParser.get_encoding = get_encoding  # type: ignore[method-assign]
    _HOOK["installed"] = True


def read_pages(data: bytes, npages: int) -> List[Any]:
    """-> per page: list of (text, adv) of the LTChar objects, or ('exc', key, repr)."""
    from pdfminer.converter import PDFPageAggregator
    from pdfminer.layout import LTChar
    from pdfminer.pdfdocument import PDFDocument
    from pdfminer.pdfinterp import PDFPageInterpreter, PDFResourceManager
    from pdfminer.pdfpage import PDFPage
    from pdfminer.pdfparser import PDFParser

    res: List[Any] = []
    try:
        doc = PDFDocument(PDFParser(io.BytesIO(data)))
        pages = list(PDFPage.create_pages(doc))
        rsrc = PDFResourceManager()
    except Exception as e:  # noqa: BLE001
        return [("exc", _exc_key(e), repr(e))] * npages
    for page in pages:
        try:
            dev = PDFPageAggregator(rsrc, laparams=None)
            PDFPageInterpreter(rsrc, dev).process_page(page)
            lt = dev.get_result()
            res.append([(o.get_text(), o.adv) for o in lt if isinstance(o, LTChar)])
        except RecursionError as e:
            res.append(("exc", "exception:RecursionError", repr(e)))
        except Exception as e:  # noqa: BLE001
            res.append(("exc", _exc_key(e), repr(e)))
    while len(res) < npages:
        res.append(("exc", "page_missing", "document yielded %d pages, %d expected" % (len(pages), npages)))
    return res


def _close(a: float, b: float) -> bool:
    return abs(a - b) <= 1e-9 * max(abs(a), abs(b)) + 1e-12


def judge(case: Dict[str, Any], observed: Any, stats: Optional[Dict[str, Any]] = None) -> List[Tuple[str, str]]:
    """Compare one page's LTChars with the reference expectation -> [(key, detail)]."""
    fails: List[Tuple[str, str]] = []
    tag = case.get("tag", "")
    sfx = ":" + tag if tag in TAGGED else ""
    if isinstance(observed, tuple):
        return [(observed[1] + sfx, "font %s: %s" % (_brief(case), observed[2]))]
    if len(observed) != 256:
        return [("char_count", "font %s: %d LTChar objects for 256 shown codes" % (_brief(case), len(observed)))]
    exp = G.expected(case)
    order = G.code_order(case)
    seen_keys: set = set()
    for pos, code in enumerate(order):
        text, adv = observed[pos]
        e = exp[code]
        et = e["text"]
        if et != SKIP:
            ok = text in et if isinstance(et, tuple) else text == et
            if stats is not None:
                stats["text"] += 1
                stats["tsrc"][e["tsrc"]] = stats["tsrc"].get(e["tsrc"], 0) + 1
            if not ok:
                key = "text:" + e["tsrc"] + sfx
                if key not in seen_keys:
                    seen_keys.add(key)
                    fails.append((key, "font %s code %d (0x%02X): text %r, expected %r [%s]%s"
                                  % (_brief(case), code, code, text, et, e["tsrc"], _why(case, code))))
        elif stats is not None:
            stats["text_skipped"] += 1
        if e["adv"] is not None:
            if stats is not None:
                stats["adv"] += 1
                stats["wsrc"][e["wsrc"]] = stats["wsrc"].get(e["wsrc"], 0) + 1
            ea = e["adv"]
            if not (any(_close(adv, v) for v in ea) if isinstance(ea, tuple) else _close(adv, ea)):
                key = "adv:" + e["wsrc"] + sfx
                if key not in seen_keys:
                    seen_keys.add(key)
                    fails.append((key, "font %s code %d (0x%02X): adv %r, expected %r [%s] size=%r"
                                  % (_brief(case), code, code, adv, e["adv"], e["wsrc"], case["size"])))
        elif stats is not None:
            stats["adv_skipped"] += 1
    return fails


def _brief(case: Dict[str, Any]) -> str:
    enc = case["enc"]
    e = enc["kind"] if enc["kind"] != "name" else enc["name"]
    if enc["kind"] == "dict":
        e = "dict(base=%s, %d diff items)" % (enc["base"], len(enc["diff"]))
    return "<%s %s enc=%s tounicode=%s fontfile=%s tag=%s>" % (
        case["subtype"], case["basefont"], e, bool(case["tounicode"]),
        case["fontfile"]["style"] if case["fontfile"] else None, case.get("tag"))


def _why(case: Dict[str, Any], code: int) -> str:
    """the glyph name responsible for a code, for the failure detail"""
    enc = case["enc"]
    nm = None
    if enc["kind"] == "dict":
        c = None
        for x in enc["diff"]:
            if isinstance(x, int):
                c = x
            else:
                if c == code:
                    nm = x
                c += 1
    if case["fontfile"] and enc["kind"] == "absent":
        for c, n in case["fontfile"]["entries"]:
            if c == code:
                nm = n
    return " glyph name /%s" % nm if nm is not None else ""


def run_doc(cases: List[Dict[str, Any]], xref: str, pack: bool, rec=None,
            pages_of: Optional[List[int]] = None) -> List[Tuple[str, str, int]]:
    """Build one document with a page per case (or per entry of pages_of), run pdfminer, judge.
    -> [(key, detail, index)]"""
    data = G.build_doc(cases, xref=xref, pack=pack, pages_of=pages_of)
    pages_of = list(range(len(cases))) if pages_of is None else pages_of
    obs = read_pages(data, len(pages_of))
    out: List[Tuple[str, str, int]] = []
    shown: set = set()
    # a page entry that is a list holds several fonts (/F1 /F2 ...): its LTChars come in blocks of 256 per font
    flat: List[Tuple[int, int, Any, str]] = []
    for pno, ent in enumerate(pages_of):
        slots = ent if isinstance(ent, list) else [ent]
        o = obs[pno]
        if len(slots) > 1 and rec is not None:
            rec.count("pages_with_several_fonts")
            for a, b in zip(slots, slots[1:]):
                rec.count("font_dict_%s_after_%s" % ("inline" if cases[b]["direct"] else "indirect",
                                                     ("same_indirect" if a == b else "indirect") if not cases[a]["direct"] else "inline"))
        if isinstance(o, list) and len(slots) > 1:
            if len(o) != 256 * len(slots):
                out.append(("char_count", "page %d with %d fonts: %d LTChar objects for %d shown codes"
                            % (pno, len(slots), len(o), 256 * len(slots)), slots[0]))
                continue
            for sl, i in enumerate(slots):
                flat.append((pno, i, o[256 * sl:256 * (sl + 1)], " as /F%d of %d fonts %s" % (
                    sl + 1, len(slots), ["inline" if cases[j]["direct"] else "indirect#%d" % j for j in slots])))
        else:
            for sl, i in enumerate(slots):
                flat.append((pno, i, o, ""))
    for pno, i, obs_i, ctx in flat:
        case = cases[i]
        if i in shown:  # the same font again (later page / second name; font cache for indirect ones): same expectation
            for k, d in judge(case, obs_i, None):
                out.append((k, "[page %d, font shown again%s] %s" % (pno, ctx, d), i))
            if rec is not None:
                rec.count("pages_with_reused_font")
            continue
        shown.add(i)
        stats = {"text": 0, "adv": 0, "text_skipped": 0, "adv_skipped": 0, "tsrc": {}, "wsrc": {}}
        fails = judge(case, obs_i, stats)
        for k, d in fails:
            out.append((k, ("[page %d%s] " % (pno, ctx) if ctx else "") + d, i))
        if rec is not None:
            rec.case(chash(case), stats["text"] >= 100)
            rec.count("fonts")
            rec.count("fonts_family_" + case["tag"])
            rec.count("fonts_subtype_" + case["subtype"])
            rec.count("fonts_enc_" + case["enc"]["kind"])
            rec.count("fonts_layout_" + case["layout"])
            if case["tounicode"]:
                rec.count("fonts_with_tounicode")
            if case["fontfile"]:
                rec.count("fonts_with_fontfile")
            if case["direct"]:
                rec.count("fonts_direct_dict")
            if case["subtype"] != "Type3" and case["basefont"] in G.SUBSET_STD14:
                rec.count("fonts_subset_tag_plus_std14_name")
                if case["fontfile"] and case["enc"]["kind"] == "absent":
                    rec.count("fonts_subset_tag_plus_std14_name_builtin_encoding")
            if case["enc"]["kind"] == "dict":
                code = None
                for x in case["enc"]["diff"]:
                    if isinstance(x, int):
                        code = x
                    else:
                        if code == 255:
                            rec.count("diff_names_for_code_255")
                        elif code == 0:
                            rec.count("diff_names_for_code_0")
                        code += 1
            if case["widths"] and case["widths"]["indirect"] == "shared" and len(case["widths"]["list"]) >= 2:
                rec.count("fonts_widths_one_object_referenced_twice")
                if case["subtype"] == "Type3":
                    rec.count("type3_fonts_widths_one_object_referenced_twice")
            rec.count("codes_text_judged", stats["text"])
            rec.count("codes_text_left_out", stats["text_skipped"])
            rec.count("codes_adv_judged", stats["adv"])
            rec.count("codes_adv_left_out", stats["adv_skipped"])
            for s, n in stats["tsrc"].items():
                rec.see("tsrc", s)
                rec.count("text_src_" + s.split(":")[0], n)
                if s.startswith("diff:") or s.startswith("builtin:"):
                    rec.count("namecat_" + s.split(":")[1], n)
            rec.count("tounicode_codes_judged", stats["tsrc"].get("tounicode", 0))
            rec.count("diff_codes_judged", sum(n for s, n in stats["tsrc"].items() if s.startswith("diff:")))
            for s, n in stats["wsrc"].items():
                rec.see("wsrc", s)
                rec.count("adv_src_" + s, n)
            rec.see("subtype", case["subtype"])
            rec.see("family", case["tag"])
            if case["matrix"]:
                rec.see("type3_scale", repr(case["matrix"][0]))
            if rec.want_sample() and case["tag"] in ("tounicode", "fontfile") and isinstance(obs_i, list):
                order = G.code_order(case)
                rec.sample({"font": _brief(case), "enc": case["enc"], "first_codes": order[:12],
                            "observed": [[t, a] for t, a in obs_i[:12]]})
    return out


# --------------------------------------------------------------------------
# direct drive of name2unicode / get_encoding
# --------------------------------------------------------------------------
def check_name(name: str) -> List[Tuple[str, str]]:
    from pdfminer.encodingdb import name2unicode

    exp = agl.to_unicode(name)
    cat = G.name_category(name)
    try:
        got: Any = name2unicode(name)
    except KeyError:
        got = None
    except Exception as e:  # noqa: BLE001
        return [("name2unicode:%s:%s" % (type(e).__name__, cat),
                 "name2unicode(%r) raised %r; the AGL mapping is %r (KeyError is the documented 'no mapping')" % (name, e, exp))]
    if exp == "":
        if got is not None:
            return [("name2unicode:mapped_unmappable:" + cat, "name2unicode(%r) = %r; the AGL algorithm maps it to nothing" % (name, got))]
        return []
    if got != exp:
        return [("name2unicode:" + cat, "name2unicode(%r) = %r, AGL algorithm gives %r" % (name, got, exp))]
    return []


def check_get_encoding(base: str, diff: Optional[List[Any]]) -> List[Tuple[str, str]]:
    from pdfminer.encodingdb import EncodingDB
    from pdfminer.psparser import LIT

    case = {"enc": {"kind": "dict", "base": base, "diff": diff or []}, "fontfile": None}
    exp = G.encoding_glyphs(case)
    try:
        got = EncodingDB.get_encoding(base, [x if isinstance(x, int) else LIT(x) for x in diff] if diff is not None else None)
    except Exception as e:  # noqa: BLE001
        return [(_exc_key(e), "get_encoding(%r, %r) raised %r" % (base, diff, e))]
    fails: List[Tuple[str, str]] = []
    keys: set = set()
    for c in range(256):
        src, val = exp[c]
        if val == SKIP:
            continue
        g = got.get(c)
        ok = (g is None) if val is None else (g in val if isinstance(val, tuple) else g == val)
        if not ok and src not in keys:
            keys.add(src)
            fails.append(("get_encoding:" + src, "get_encoding(%r, diff) code %d: %r, expected %r (diff=%r)" % (base, c, g, val, diff)))
    return fails


def base_tables_intact() -> List[Tuple[str, str]]:
    """The shared base tables must still be the base encodings after any number of fonts were built."""
    fails = []
    for b in G.ENC_NAMES:
        for k, d in check_get_encoding(b, None):
            fails.append(("base_table_changed:" + b, d))
            break
    return fails


# --------------------------------------------------------------------------
# deterministic part
# --------------------------------------------------------------------------
def det_names() -> List[str]:
    names: List[str] = list(G.LIST_NAMES)
    names += G.NOMAP_PLAIN + [".notdef", ".null", "A.", "A.alt", "uni0041.alt", "u0041.alt", "one.oldstyle", "f_f_i", "f_i",
                              "T_h", "uni0041_uni0042", "A_uni0042_u00043", "Lcommaaccent_uni20AC0308_u1040C.alternate",
                              "uni20AC0308", "uni013B", "u013B", "u1040C", "uniF6FB", "u1F600", "u10FFFF", "u010FFF",
                              "u00FFFF", "uniFFFF", "uni0000", "u0000", "uniD7FF", "uniE000", "uD7FF", "uE000", "u00D7FF",
                              "u00E000", "uni00410042004300440045", "a_b_c_d_e_f", "space_space", "fi_fl.liga"]
    for cp in list(range(0, 0x10000, 0x101)) + [0xD7FF, 0xE000, 0xFFFF]:
        if not 0xD800 <= cp <= 0xDFFF:
            names.append("uni%04X" % cp)
            names.append("u%04X" % cp)
            names.append("u%05X" % cp)
            names.append("u%06X" % cp)
    for cp in range(0x10000, 0x110000, 0x1111):
        names.append("u%X" % cp)
        names.append("u%06X" % cp)
    return names


def det_trap_names() -> List[str]:
    return G.NOMAP_TRAP_STRIP[:-1] + G.NOMAP_TRAP_HEX + G.NOMAP_TRAP_RANGE


def _det_base_case(subtype: str, encname: Optional[str], k: int) -> Dict[str, Any]:
    rng = random.Random("C06/det/%s/%s/%d" % (subtype, encname, k))
    if subtype == "std14":
        c = G.gen_case(rng, "std14")
        c["basefont"] = ["Courier", "Helvetica", "Times-Roman"][k % 3]
    elif subtype == "Type3":
        c = G.gen_case(rng, "t3")
    else:
        c = G.gen_case(rng, "base")
        c["subtype"] = subtype
    c["tounicode"] = None
    c["enc"] = {"kind": "name", "name": encname} if encname else {"kind": "absent"}
    c["order"] = "asc"
    return c


def _det_names_cases(names: List[str], where: str, tag: str) -> List[Dict[str, Any]]:
    """fonts whose Differences (or Type 1 header) carry the given names, 200 per font, over changing bases"""
    out = []
    for i in range(0, len(names), 200):
        chunk = names[i:i + 200]
        rng = random.Random("C06/detn/%s/%d" % (where, i))
        if where == "diff":
            c = G.gen_case(rng, "diff")
            c["enc"] = {"kind": "dict", "base": [None, "WinAnsiEncoding", "MacRomanEncoding"][(i // 200) % 3],
                        "diff": [20] + chunk}
        else:
            c = G.gen_case(rng, "fontfile")
            c["tounicode"] = None
            c["fontfile"]["entries"] = [[20 + j, n] for j, n in enumerate(chunk)]
        c["tag"] = tag
        out.append(c)
    return out


def det_items() -> List[Dict[str, Any]]:
    """The full deterministic list of work items (split over the det shards by index)."""
    items: List[Dict[str, Any]] = []
    for subtype in ("Type1", "MMType1", "TrueType", "Type3"):
        for e in G.ENC_NAMES:
            for k in range(2):
                items.append({"doc": [_det_base_case(subtype, e, k)]})
    for e in G.ENC_NAMES + [None]:
        for k in range(3):
            items.append({"doc": [_det_base_case("std14", e, k)]})
    # every pattern of indirect / inline font dictionaries in one /Font resource dictionary
    for pi, pat in enumerate(MIXED_PATTERNS):
        cs, slots, idx = [], [], -1
        for ch in pat:
            if ch in "ID":
                idx += 1
                c = _det_base_case(["Type1", "TrueType", "Type3", "MMType1"][(pi + idx) % 4], G.ENC_NAMES[(pi + idx) % 3], idx)
                c["direct"] = ch == "D"
                cs.append(c)
            slots.append(idx)
        items.append({"doc": cs, "pages_of": [slots]})
    names = [n for n in det_names() if n.isascii() and "+" not in n and "-" not in n]
    for c in _det_names_cases(det_names(), "diff", "diff"):
        items.append({"doc": [c]})
    for c in _det_names_cases(names, "fontfile", "fontfile"):
        items.append({"doc": [c]})
    allnames = det_names()
    for i in range(0, len(allnames), 150):
        items.append({"names": allnames[i:i + 150]})
    for b in G.ENC_NAMES:
        items.append({"getenc": [b, None]})
        items.append({"getenc": [b, []]})
        for i in range(0, len(allnames), 230):
            items.append({"getenc": [b, [10] + allnames[i:i + 230]]})
    return items


def run_item(it: Dict[str, Any], rec) -> None:
    if "doc" in it:
        for k, d, i in run_doc(it["doc"], it.get("xref", "table"), it.get("pack", False), rec, it.get("pages_of")):
            rec.fail(k, {"kind": "doc", "cases": it["doc"], "xref": it.get("xref", "table"), "pack": it.get("pack", False),
                         "pages_of": it.get("pages_of")}, d)
    elif "names" in it:
        for n in it["names"]:
            rec.case(chash("n2u", n), True)
            rec.count("direct_name2unicode")
            rec.see("direct_namecat", G.name_category(n))
            for k, d in check_name(n):
                rec.fail(k, {"kind": "name", "name": n}, d)
    else:
        b, diff = it["getenc"]
        rec.case(chash("getenc", b, diff), True)
        rec.count("direct_get_encoding")
        for k, d in check_get_encoding(b, diff):
            rec.fail(k, {"kind": "getenc", "base": b, "diff": diff}, d)


# --------------------------------------------------------------------------
def run_shard(spec: Dict[str, Any], rec) -> None:
    _install_hook()
    if spec["kind"] == "det":
        items = det_items()
        for i, it in enumerate(items):
            if i % spec["of"] == spec["part"]:
                run_item(it, rec)
    else:
        rng = random.Random("C06/%d/%d" % (spec["seed"], spec["sub"]))
        cases: List[Dict[str, Any]] = []
        for fam in FAMILIES + TAGGED:
            for _ in range(spec["per_family"]):
                cases.append(G.gen_case(rng, fam))
        rng.shuffle(cases)
        i = 0
        while i < len(cases):
            n = rng.choice([1, 2, 4, 6])
            xref = "stream" if rng.random() < 0.3 else "table"
            chunk = cases[i:i + n]
            pages_of = list(range(len(chunk)))
            if rng.random() < 0.3:  # show some fonts again on later pages (PDFResourceManager font cache)
                pages_of += [rng.randrange(len(chunk)) for _ in range(rng.randint(1, 2))]
            run_item({"doc": chunk, "xref": xref, "pack": rng.random() < 0.5, "pages_of": pages_of}, rec)
            i += n
        # pages whose /Font dictionary mixes indirect and inline font dictionaries, in every order
        import copy

        def variant(direct: bool) -> Dict[str, Any]:
            c = copy.deepcopy(rng.choice(cases))
            c["direct"] = direct
            return c

        for k in range(spec["per_family"] * 2):
            pat = MIXED_PATTERNS[k % len(MIXED_PATTERNS)]
            cs = [variant(ch == "D") for ch in pat if ch in "ID"]
            idx, slots2 = -1, []  # '=' repeats the previous font: the same object under a second name
            for ch in pat:
                if ch in "ID":
                    idx += 1
                slots2.append(idx)
            pages_of = [slots2] if rng.random() < 0.7 else [slots2, rng.randrange(len(cs))]
            run_item({"doc": cs, "xref": "stream" if rng.random() < 0.3 else "table", "pack": rng.random() < 0.5,
                      "pages_of": pages_of}, rec)
        # direct drive with random names / Differences
        for _ in range(spec["per_family"] * 12):
            cat, nm = G.glyph_name(rng)
            run_item({"names": [nm]}, rec)
        for _ in range(spec["per_family"]):
            run_item({"getenc": [rng.choice(G.ENC_NAMES), G.gen_diff(rng, False, rng.random() < 0.5)]}, rec)
    for k, d in base_tables_intact():
        rec.fail(k, {"kind": "getenc", "base": k.split(":")[1], "diff": None}, d)
    rec.count("type1_header_parser_calls", _HOOK["calls"])
    rec.count("type1_header_entries", _HOOK["entries"])


def replay(case: Dict[str, Any]) -> List[Tuple[str, str]]:
    kind = case.get("kind")
    if kind == "doc":
        return [(k, d) for k, d, _ in run_doc(case["cases"], case.get("xref", "table"), case.get("pack", False), None,
                                              case.get("pages_of"))]
    if kind == "name":
        return check_name(case["name"])
    if kind == "getenc":
        return check_get_encoding(case["base"], case["diff"])
    return [("bad_replay_case", repr(case)[:200])]
