"""C14 — the tokenizer is total, makes progress and is buffer-size independent.

Workload: every string up to length L over an alphabet with one representative
per lexical byte class (exhaustive), plus random strings biased towards
escapes, octal runs, backslash+EOL and '#xx'.  Each string is tokenized with
several BUFSIZ values under a LINE-event step budget.

Monitor (per string): (a) nexttoken() raises nothing but PSEOF; (b) it stops
within the step budget and yields at most len+2 tokens; (c) token positions
are non-decreasing and lie inside the input; (d) the normalised token sequence
is the same for every buffer size.  A wrapper on fillbuf records the scanner
state at each refill (coverage of refill-inside-construct).
"""
from __future__ import annotations

import io
import itertools
import random
from typing import Any, Dict, List, Optional, Tuple

from vf.common import StepBudgetExceeded, chash, last_steps, run_with_budget

ID = "C14"
LEVEL = "exploration"
DESIGN_REF = "DESIGN.md#C14"
LEVEL_TEXT = (
    "Exploration, exhaustive on a finite abstraction: all strings up to length 3 (quick) / 4 (thorough; 5 over a reduced alphabet) over one representative per lexical byte class, plus biased random strings, each tokenized at six buffer sizes under a line-count budget; only PSEOF may be raised, positions must be non-decreasing and inside the input, and the token sequences must agree for all sizes. Right level: the tokenizer's behaviour depends on the byte classes its regexes distinguish, so short exhaustive strings over class representatives reach every state transition pair; longer interactions are sampled."
)
RULE = (
    "exhaustive: all strings of length<=L over a 25-symbol alphabet with one representative per lexical "
    "byte class (L=3 quick, 4 thorough, plus L=5 over a 16-symbol sub-alphabet in thorough); random: strings "
    "of length<=64 biased to escapes/octal/backslash-EOL/#xx/hex. Each string x BUFSIZ in {1,2,3,4,7,4096} and once more at BUFSIZ 4096 "
    "through a stream whose read() delivers 1-5 bytes per call. "
    "long: 1000-9000 repetitions of one of 33 units (every white-space byte, digits, letters, delimiters, escapes, comments), bare or inside "
    "a literal string / hex string / array, between ordinary tokens, x BUFSIZ in {61,4096,65536} (a fifth of the 924 combinations per quick run, all in thorough). "
    "distinct = distinct byte strings; non-trivial = length>=2 and not all white space (a string on which at "
    "least one multi-byte construct or token boundary can interact with a refill)."
)
ASSUMPTIONS = [
    "CPython 3.12 sys.monitoring LINE events count executed pdfminer source lines faithfully",
    "the 25 representatives cover every byte class the scanner distinguishes (checked against the regexes in psparser.py by reading)",
    "buffer sizes 1,2,3,4,7 and 4096 stand for all sizes: a refill can fall between any two bytes with size 1",
]

ALPHA25 = [
    b" ", b"\n", b"\r", b"\x00", b"%", b"/", b"(", b")", b"<", b">", b"[", b"]", b"{", b"}",
    b"#", b"\\", b"0", b"7", b"8", b".", b"-", b"a", b"n", b"x", b"\x80",
]
ALPHA16 = [b" ", b"\n", b"\r", b"%", b"/", b"(", b")", b"<", b">", b"#", b"\\", b"0", b"7", b"8", b".", b"a"]
BUFSIZES = [1, 2, 3, 4, 7, 4096]
SHARD_TIMEOUT = {"quick": 600, "thorough": 5400}


def minimums(tier: str) -> Dict[str, int]:
    if tier == "quick":
        return {"evaluations": 20000, "distinct": 15000, "seen:refill_states": 9, "tokens_compared": 50000, "long_inputs": 150,
                "seen:long_run_units": len(RUN_UNITS)}
    return {"evaluations": 800000, "distinct": 700000, "seen:refill_states": 10, "tokens_compared": 1000000, "long_inputs": 900,
            "seen:long_run_units": len(RUN_UNITS)}


def shards(tier: str, seed: int) -> List[Dict[str, Any]]:
    out: List[Dict[str, Any]] = []
    L = 3 if tier == "quick" else 4
    for i in range(len(ALPHA25)):
        out.append({"kind": "exh", "alpha": 25, "L": L, "first": i})
    out.append({"kind": "exh", "alpha": 25, "L": 0, "first": -1})  # the empty string
    if tier == "thorough":
        for i in range(len(ALPHA16)):
            for j in range(0, len(ALPHA16), 4):
                out.append({"kind": "exh5", "first": i, "second": [j, j + 1, j + 2, j + 3]})
    ncomb = len(RUN_UNITS) * len(RUN_LENGTHS) * 4
    nlong = 8 if tier == "quick" else 32
    ids = [((seed * 7919) + k) % ncomb for k in range(ncomb)] if tier != "quick" else [((seed * 7919) + 5 * k) % ncomb for k in range(ncomb // 5 + 1)]
    for k in range(nlong):
        out.append({"kind": "long", "sub": k, "cases": ids[k::nlong]})
    nrand = 16 if tier == "quick" else 64
    per = 1300 if tier == "quick" else 6500
    for k in range(nrand):
        out.append({"kind": "rand", "n": per, "sub": k})
    return out


# --------------------------------------------------------------------------
def _norm(tok: Any) -> Tuple[str, Any]:
    from pdfminer.psparser import PSKeyword, PSLiteral

    if isinstance(tok, PSLiteral):
        return ("L", tok.name if isinstance(tok.name, str) else "b:" + tok.name.hex())
    if isinstance(tok, PSKeyword):
        return ("K", tok.name.hex())
    if isinstance(tok, bool):
        return ("B", tok)
    if isinstance(tok, int):
        return ("I", tok)
    if isinstance(tok, float):
        return ("F", repr(tok))
    if isinstance(tok, bytes):
        return ("S", tok.hex())
    return ("?", repr(tok))


_PARSERS: Dict[int, Any] = {}
_REFILL_STATES: set = set()


def _parser_class(bufsiz: int):
    cls = _PARSERS.get(bufsiz)
    if cls is None:
        from pdfminer.psparser import PSBaseParser

        def fillbuf(self):  # record the scanner state whenever a real refill happens
            if self.charpos >= len(self.buf) and self.bufpos + self.charpos > 0:
                _REFILL_STATES.add(self._parse1.__name__)
            return PSBaseParser.fillbuf(self)

        cls = type("P%d" % bufsiz, (PSBaseParser,), {"BUFSIZ": bufsiz, "fillbuf": fillbuf})
        _PARSERS[bufsiz] = cls
    return cls


class ShortReadIO(io.BytesIO):
    """A binary stream whose read(n) hands out at most `chunk` bytes per call, as raw files, pipes and sockets may: only
    an empty result means end of data (io.RawIOBase.read)."""

    def __init__(self, data: bytes, chunk: int) -> None:
        super().__init__(data)
        self._chunk = chunk

    def read(self, n: int = -1) -> bytes:      # type: ignore[override]
        return super().read(self._chunk if n is None or n < 0 or n > self._chunk else n)


def tokenize(data: bytes, bufsiz: int, short_read: int = 0):
    """-> (tokens, error) where error is None or (key, detail)."""
    from pdfminer.psexceptions import PSEOF

    p = _parser_class(bufsiz)(ShortReadIO(data, short_read) if short_read else io.BytesIO(data))
    toks: List[Tuple[int, Tuple[str, Any]]] = []
    limit = len(data) + 2

    def loop():
        while True:
            pos, tok = p.nexttoken()
            toks.append((pos, _norm(tok)))
            if len(toks) > limit:
                return ("too_many_tokens", "more than len+2=%d tokens" % limit)

    try:
        r = run_with_budget(loop, 400 * len(data) + 4000)
        return toks, r
    except PSEOF:
        return toks, None
    except StepBudgetExceeded as e:
        return toks, ("step_budget", str(e))
    except RecursionError as e:
        return toks, ("exception:RecursionError", repr(e))
    except Exception as e:  # noqa: BLE001
        tb = e.__traceback__
        fn = "?"
        while tb is not None:
            if "pdfminer" in tb.tb_frame.f_code.co_filename:
                fn = tb.tb_frame.f_code.co_name
            tb = tb.tb_next
        return toks, ("exception:%s:%s" % (type(e).__name__, fn), repr(e))


LONG_BUFSIZES = [61, 4096, 65536]


def check_string(data: bytes, bufsizes: Optional[List[int]] = None) -> List[Tuple[str, str]]:
    """Run all monitors on one input; -> list of (key, detail)."""
    fails: List[Tuple[str, str]] = []
    ref = None
    ntok = 0
    if len(data) > 200:
        short = lambda b: b[:60] + b"...(%d bytes)..." % len(b) + b[-40:]    # noqa: E731
        fails_data = short(data)
    for bs in (bufsizes or BUFSIZES):
        toks, err = tokenize(data, bs)
        if err is not None:
            fails.append((err[0], "BUFSIZ=%d data=%r: %s" % (bs, data if len(data) <= 200 else fails_data, str(err[1])[:300])))
            continue
        last = -1
        for pos, t in toks:
            if not (0 <= pos < len(data)):
                fails.append(("position_outside_input", "BUFSIZ=%d data=%r token %r at %d" % (bs, data, t, pos)))
                break
            if pos < last:
                fails.append(("position_decreases", "BUFSIZ=%d data=%r token %r at %d after %d" % (bs, data, t, pos, last)))
                break
            last = pos
        if ref is None:
            ref = (bs, toks)
        elif toks != ref[1]:
            # name the first diverging token's type for the mechanism key
            kind = "len"
            for a, b in zip(ref[1], toks):
                if a != b:
                    kind = a[1][0] + b[1][0] if a[0] == b[0] else "pos"
                    break
            fails.append(
                ("bufsize_dependence:" + kind,
                 "data=%r BUFSIZ=%d -> %r but BUFSIZ=%d -> %r" % (data, ref[0], ref[1], bs, toks) if len(data) <= 200 else
                 "data=%r BUFSIZ=%d -> %d tokens but BUFSIZ=%d -> %d tokens" % (fails_data, ref[0], len(ref[1]), bs, len(toks)))
            )
        ntok += len(toks)
    if ref is not None and data:
        # the same input through a stream that delivers short reads, at the default buffer size
        k = 1 + len(data) % 5
        toks, err = tokenize(data, 4096, short_read=k)
        if err is not None:
            fails.append((err[0] + ":short_reads", "short reads of %d bytes, data=%r: %s" % (k, data[:200], str(err[1])[:300])))
        elif toks != ref[1]:
            fails.append(("short_read_dependence", "data=%r: a stream delivering %d bytes per read() gives %d tokens, BUFSIZ=%d gave %d"
                          % (data[:200], k, len(toks), ref[0], len(ref[1]))))
        ntok += len(toks)
    check_string.tokens = ntok  # type: ignore[attr-defined]
    return fails


def _nontrivial(data: bytes) -> bool:
    return len(data) >= 2 and data.strip(b" \n\r\x00") != b""


def _run_one(data: bytes, rec) -> None:
    fails = check_string(data)
    rec.case(chash(data), _nontrivial(data))
    rec.count("tokens_compared", check_string.tokens)  # type: ignore[attr-defined]
    rec.count("tokenizer_runs", len(BUFSIZES))
    steps = last_steps()
    rec.count("max_steps_bucket_%d" % min(steps // 1000, 9))
    for k, d in fails:
        rec.fail(k, {"data": data}, d)
    if rec.want_sample() and len(data) >= 3:
        toks, _ = tokenize(data, 4096)
        rec.sample({"data": data, "tokens_bufsiz4096": [[p, list(t)] for p, t in toks]})


FRAGS = [
    b"\\", b"\\\r", b"\\\n", b"\\\r\n", b"\\0", b"\\12", b"\\377", b"\\400", b"\\777", b"\\8", b"\\n", b"\\(", b"\\)",
    b"(", b")", b"<", b">", b"<<", b">>", b"[", b"]", b"{", b"}", b"/", b"#", b"#4", b"#41", b"#zz", b"%", b"\r", b"\n",
    b"\r\n", b" ", b"\x00", b"\t", b"\x0c", b"+", b"-", b".", b"1", b"23", b"4.5", b"-.5", b"true", b"false", b"null",
    b"R", b"obj", b"abc", b"\xff", b"\x80", b"9A", b"aF", b"e", b"E", b"0x",
]


def gen_random(rng: random.Random) -> bytes:
    n = rng.randint(1, 24)
    parts = []
    for _ in range(n):
        r = rng.random()
        if r < 0.8:
            parts.append(rng.choice(FRAGS))
        else:
            parts.append(bytes([rng.randrange(256)]))
    return b"".join(parts)[:64]


RUN_UNITS = [b"\x00", b" ", b"\n", b"\r", b"\r\n", b"\t", b"\x0c", b"1", b"a", b"(", b")", b"<", b">", b"[", b"]", b"/", b"#41", b"%",
             b"\\", b"\\\n", b"<<", b">>", b"{", b"}", b"\\(", b"7.", b"-", b"\xff", b"()", b"<41>", b"/N ", b"1 ", b"% c\n"]
RUN_LENGTHS = [1000, 1500, 3000, 4095, 4096, 4097, 9000]


def gen_long(i: int, rng: random.Random) -> bytes:
    """A long run of one unit between ordinary tokens, bare or inside a literal / hex string / array / comment: lengths
    around and beyond the default buffer size and the interpreter's recursion limit."""
    unit = RUN_UNITS[i % len(RUN_UNITS)]
    n = RUN_LENGTHS[(i // len(RUN_UNITS)) % len(RUN_LENGTHS)]
    run = unit * max(1, n // len(unit))
    pre = rng.choice([b"", b"12 ", b"/Name ", b"(s) ", b"q\n"])[: rng.randint(0, 6)] if rng.random() < 0.5 else rng.choice([b"", b"12 ", b"/Name "])
    post = rng.choice([b"", b" 3.5 Td", b"\n/F1 12 Tf", b" (end)", b" >> endobj"])
    wrap = (i // (len(RUN_UNITS) * len(RUN_LENGTHS))) % 4
    if wrap == 1:
        run = b"(" + run + b")"
    elif wrap == 2:
        run = b"<" + run + b">"
    elif wrap == 3:
        run = b"[" + run + b"]"
    return pre + run + post


def run_shard(spec: Dict[str, Any], rec) -> None:
    kind = spec["kind"]
    if kind == "long":
        rng = random.Random("C14long/%d/%d" % (spec["seed"], spec["sub"]))
        for i in spec["cases"]:
            data = gen_long(i, rng)
            fails = check_string(data, LONG_BUFSIZES)
            rec.case(chash(data), True)
            rec.count("long_inputs")
            rec.count("tokens_compared", check_string.tokens)  # type: ignore[attr-defined]
            rec.see("long_run_units", RUN_UNITS[i % len(RUN_UNITS)])
            for k, d in fails:
                rec.fail(k, {"data": data, "long": True}, d)
    elif kind == "exh":
        L = spec["L"]
        if spec["first"] < 0:
            _run_one(b"", rec)
        else:
            first = ALPHA25[spec["first"]]
            for n in range(0, L):
                for rest in itertools.product(ALPHA25, repeat=n):
                    _run_one(first + b"".join(rest), rec)
    elif kind == "exh5":
        a = ALPHA16[spec["first"]]
        for j in spec["second"]:
            b = ALPHA16[j]
            for rest in itertools.product(ALPHA16, repeat=3):
                _run_one(a + b + b"".join(rest), rec)
    else:
        rng = random.Random("C14/%d/%d" % (spec["seed"], spec["sub"]))
        for _ in range(spec["n"]):
            _run_one(gen_random(rng), rec)
    for s in _REFILL_STATES:
        rec.see("refill_states", s)


def replay(case: Dict[str, Any]) -> List[Tuple[str, str]]:
    return check_string(case["data"], LONG_BUFSIZES if case.get("long") else None)
