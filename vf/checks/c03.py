"""C03 — stream payloads and filter chains decode to exactly the original bytes.

Workload (all encoders are the reference encoders of vf.ref.filters, written
from ISO 32000-1 7.4 / TIFF 6.0 / PNG; documents are written by
vf.gen.streamdoc / vf.gen.pdfw):

  doc       documents holding 1-5 stream objects; every chain of length 0-3 over
            {ASCIIHex, ASCII85, LZW, Flate, RunLength} is visited cyclically
            (156 chains), Flate/LZW stages optionally carry a TIFF-2 or PNG
            predictor; each stream has its own spelling (EOL after `stream`,
            EOL before `endstream`, Length/Filter/DecodeParms direct or
            indirect, array/dict/null forms, abbreviated names, #xx escapes);
            one document in five has a cross-reference stream with the helper
            objects inside an object stream.
  direct    the decoder functions called directly (lzwdecode, rldecode,
            ascii85decode, asciihexdecode) on every payload class x spelling.
  pngexh    apply_png_predictor on small images: every assignment of the five
            row filters to the rows (5^rows), colours 1-4, bpc 8 and 1;
            apply_tiff_predictor colours 1-4; paeth_predictor on a value lattice.
  predrand  random geometries (columns <= 70, colours 1-4 (few 5-8), many rows).
  big       payloads of 5 KiB - 200 KiB through LZW (table overflow, all code
            widths) alone and in chains, with and without predictor, through a
            document.
  delim     unfiltered streams, exhaustive: leading edge x trailing edge (17 each:
            CR, LF, CRLF, NUL, 'endstream', 'stream\r\n', ...) x EOL after `stream`
            x EOL before `endstream` x Length direct / indirect before / indirect
            after x separator between `>>` and `stream`; two streams per file.

Monitor: byte equality of `PDFDocument.getobj(n).get_data()` (and of
`get_rawdata()` with the encoded bytes beforehand) resp. of the decoder's
return value with the original payload.  On a mismatch the stages are re-run one
by one with pdfminer's functions against the reference decoders so that the key
says where it went wrong: delimitation / decode:<filter> / predictor:<...> /
pipeline.  The reference decoders also audit every generated stream (a stream
they do not take back to the payload is a harness bug, exit 2).
"""
from __future__ import annotations

import io
import itertools
import random
import zlib
from typing import Any, Dict, List, Optional, Tuple

from vf.common import chash, quiet_logging, short
from vf.gen import streamdoc
from vf.ref import filters as F

ID = "C03"
LEVEL = "exploration"
DESIGN_REF = "DESIGN.md#C03"
TECHNIQUE = "reference encoders + round-trip oracle at get_data() and at each decoder function"
RULE = (
    "payload classes {empty, 1 byte, all-256, runs, entropy, text, zero groups, two-symbol, adversarial fragments "
    "('endstream','endobj','stream',CR/LF/CRLF at either end,NUL,'~>','>','<~',0x80), EOL edges}; every filter chain of "
    "length 0-3 over {AHx,A85,LZW,Fl,RL} (156, visited cyclically) with a random legal spelling of each encoder "
    "(hex case/white space/odd final digit; a85 with/without '<~', z or !!!!!, wraps, white space; zlib level 0-9, "
    "window, strategy, flush blocks; RunLength greedy/random/literal splits; LZW greedy/non-maximal matches/early "
    "clear-table, EarlyChange 1 only); TIFF-2 (bpc 8) and PNG 10-15 (bpc 8 or 1) predictors on Flate/LZW stages "
    "with payloads that are a whole number of rows; exhaustive 5^rows row-filter assignments for rows<=4 (quick) / "
    "<=6 (thorough); unfiltered streams: exhaustive leading edge x trailing edge x EOL forms x Length mode x separator. Stream dictionary: Length/Filter/DecodeParms direct or indirect (Length object before or after "
    "the stream, or inside an object stream), DecodeParms dict / array / array with nulls or empty dicts, a dict "
    "only with a single filter. distinct = distinct (payload, chain+parameters, encoded bytes, spelling); "
    "non-trivial = payload of at least 2 bytes. Left out as ambiguous or outside the clause: data after EOD, "
    "missing EOD, a partial last predictor row, LZW EarlyChange 0, `stream` followed by a lone CR, /F /DP keys."
)
LEVEL_TEXT = (
    "Exploration: the property held on every generated stream of the run; chains, predictor row-filter assignments "
    "of small images and the stream-dictionary forms are enumerated, payloads and encoder spellings are sampled."
)
ASSUMPTIONS = [
    "stdlib zlib, binascii and base64.a85encode are correct (trusted base of the reference encoders)",
    "the reference encoders/decoders in vf/ref/filters.py implement ISO 32000-1 7.4, TIFF 6.0 s.14 and PNG ch.6 (audited against each other on every case)",
    "the EOD code of an LZW stream has the code length that follows the creation of the table entry for the last data code (what every decoder computes; libtiff does the same)",
    "vf.gen.streamdoc / vf.gen.pdfw write conformant files (classic xref table or xref stream + object stream)",
]
SHARD_TIMEOUT = {"quick": 900, "thorough": 5400}

ALL_CHAINS: List[Tuple[str, ...]] = [c for k in range(4) for c in itertools.product(F.FILTERS, repeat=k)]
assert len(ALL_CHAINS) == 156


def minimums(tier: str) -> Dict[str, int]:
    # deterministic counters (numbers of shards x cases) are demanded exactly; random ones at about half of
    # what an intact tree shows (they vary by a few per cent between seeds)
    q = tier == "quick"
    return {
        "evaluations": 232796 if q else 2004820,
        "distinct": 180000 if q else 1500000,
        "doc_streams": 64128 if q else 448896,
        "delim_cases": 34680 if q else 208080,
        "big_streams": 128 if q else 896,
        "pngexh_cases": 74880 if q else 712320,
        "predrand_cases": 12000 if q else 240000,
        "tiff_cases": 2304 if q else 11520,
        "paeth_triples": 32768 if q else 531441,
        "seen:chains": 156,
        "seen:row0_filters": 5,
        "seen:png_pred_values": 6,
        "seen:tiff_pred_values": 1,
        "seen:lzw_widths": 4,
        "seen:delim_edges": 17,
        "seen:pngexh_geometries": 8,
        "seen:encoder_spellings": 55,
        "lzw_clears_full": 40 if q else 3000,
        "lzw_clears_early": 10000 if q else 250000,
        "lzw_kwkwk": 80000 if q else 1700000,
        "lzw_short_matches": 100000 if q else 4500000,
        "direct:LZW": 11200 if q else 96000,
        "direct:RL": 11200 if q else 96000,
        "direct:A85": 11200 if q else 96000,
        "direct:AHx": 11200 if q else 96000,
        "chainlen:0": 3000 if q else 20000,
        "chainlen:1": 7000 if q else 45000,
        "chainlen:2": 6000 if q else 40000,
        "chainlen:3": 15000 if q else 100000,
        "length:indirect_after": 14000 if q else 90000,
        "length:indirect_before": 14000 if q else 90000,
        "length:direct": 14000 if q else 90000,
        "xs_length:indirect_after": 2000 if q else 13000,
        "kw_eol:crlf": 20000 if q else 130000,
        "kw_eol:lf": 20000 if q else 130000,
        "end_eol:none": 5000 if q else 30000,
        "end_eol:cr": 5000 if q else 30000,
        "end_eol:crlf": 5000 if q else 30000,
        "filter_form:name": 2500 if q else 17000,
        "filter_ref:indirect": 5000 if q else 35000,
        "filter_ref:elems_indirect": 5000 if q else 35000,
        "parms_form:dict": 1000 if q else 7000,
        "parms_form:array": 10000 if q else 70000,
        "parms_ref:indirect": 3000 if q else 20000,
        "parms_ref:elems_indirect": 3000 if q else 20000,
        "abbreviated_names": 15000 if q else 100000,
        "escaped_names": 4500 if q else 30000,
        "xrefstream_docs": 2000 if q else 14000,
        "strict_docs": 3000 if q else 20000,
        "payload:adv": 7000 if q else 45000,
        "payload:edges": 7000 if q else 45000,
        "payload:empty": 3000 if q else 20000,
        "doc_pred_stages": 11000 if q else 75000,
        "geom:bpc1": 29000 if q else 230000,
        "geom:multicolor": 39000 if q else 400000, "geom:bpc1_pixel_of_2plus_bytes": 700 if q else 7000,
    }


def shards(tier: str, seed: int) -> List[Dict[str, Any]]:
    q = tier == "quick"
    out: List[Dict[str, Any]] = []
    ndoc = 16 if q else 64
    for k in range(ndoc):
        out.append({"kind": "doc", "sub": k, "nstreams": 4000 if q else 7000, "offset": k * 41})
    for k in range(8 if q else 24):
        out.append({"kind": "direct", "sub": 100 + k, "n": 700 if q else 2000})
    # exhaustive row-filter assignments: one shard per (bpc, colours)
    for bpc in (8, 1):
        for colors in (1, 2, 3, 4):
            out.append({"kind": "pngexh", "bpc": bpc, "colors": colors, "sub": 200 + bpc * 10 + colors})
    for k in range(4 if q else 16):
        out.append({"kind": "predrand", "sub": 300 + k, "n": 3000 if q else 15000})
    for k in range(16 if q else 64):
        out.append({"kind": "big", "sub": 400 + k, "n": 8 if q else 14})
    # exhaustive stream-syntax enumeration for unfiltered payloads: one shard per leading edge
    for k in range(len(DELIM_EDGES)):
        out.append({"kind": "delim", "first": k, "sub": 500 + k, "reps": 1 if q else 6})
    return out


# --------------------------------------------------------------------------
# payloads
# --------------------------------------------------------------------------
ADV = [
    b"endstream", b"endobj", b"stream", b"\nendstream\n", b"\r\nendstream\r\n", b"endstream\nendobj\n", b"\rendstream",
    b"stream\r\n", b"stream\n", b"\r", b"\n", b"\r\n", b"\n\r", b"\x00", b"\x00\x00\x00\x00", b"~>", b">", b"<~", b"~", b"z",
    b"\x80", b"<<", b">>", b" obj", b"1 0 obj\n", b"xref\n", b"%%EOF\n", b"startxref\n", b"trailer\n", b"<< /Length 3 >>",
    b"\xff", b"%", b"(", b")", b"\\",
]
EDGES = [b"\r", b"\n", b"\r\n", b"\n\r", b"\r\r\n", b"\n\n", b"\x00", b" ", b"endstream", b"\nendstream", b"endstream\n",
         b"\rendstream\r", b"stream\n", b"~>", b">"]
# edges for the exhaustive delimitation family: start x end x EOL after `stream` x EOL before `endstream`
# x Length direct/indirect-before/indirect-after x separator before `stream`
DELIM_EDGES = [b"", b"\r", b"\n", b"\r\n", b"\n\r", b"\r\r", b"\n\n", b"\x00", b" ", b"endstream", b"\nendstream\n",
               b"\rendstream\r", b"\r\nendstream\r\n", b"endobj", b"stream\n", b"stream\r\n", b"\nendstream\nendobj\n"]
DELIM_SEPS = [b"\n", b"\r\n", b" ", b"", b" %stream\n"]
TEXT = (b"BT /F1 12 Tf 72 720 Td (The quick brown fox jumps over the lazy dog) Tj ET\n"
        b"q 1 0 0 1 10 20 cm 0.5 g 0 0 100 100 re f Q\n")
PAYLOAD_KINDS = ("empty", "one", "all256", "runs", "entropy", "text", "zeros4", "twosym", "adv", "adv", "edges", "edges",
                 "short")


def gen_payload(rng: random.Random, maxlen: int, kind: Optional[str] = None) -> Tuple[bytes, str]:
    kind = kind or rng.choice(PAYLOAD_KINDS)
    n = rng.choice((rng.randint(0, 40), rng.randint(0, 600), rng.randint(0, maxlen)))
    if kind == "empty":
        return b"", kind
    if kind == "one":
        return bytes((rng.randrange(256),)), kind
    if kind == "short":
        return rng.randbytes(rng.randint(2, 9)), kind
    if kind == "all256":
        b = bytes(range(256))
        if rng.random() < 0.5:
            b = b[::-1]
        return (b * (1 + n // 256))[: max(256, n)], kind
    if kind == "runs":
        out = bytearray()
        while len(out) < n:
            out += bytes((rng.choice((0, 255, 128, 0x0A, 0x0D, rng.randrange(256))),)) * rng.choice((1, 2, 3, 127, 128, 129, 130, 257, rng.randint(1, 400)))
        return bytes(out[: max(n, 1)]), kind
    if kind == "entropy":
        return rng.randbytes(max(n, 1)), kind
    if kind == "text":
        return (TEXT * (1 + n // len(TEXT)))[: max(n, 1)], kind
    if kind == "zeros4":
        out = bytearray()
        while len(out) < n:
            out += rng.choice((b"\0\0\0\0", b"\0\0\0\0\0\0\0\0", b"\0", b"    ", rng.randbytes(rng.randint(1, 5))))
        return bytes(out[: max(n, 1)]), kind
    if kind == "twosym":
        a, b = rng.randrange(256), rng.randrange(256)
        return bytes(rng.choice((a, b)) for _ in range(max(n, 1))), kind
    if kind == "adv":
        out = bytearray()
        m = min(n, 400)
        while len(out) <= m:
            out += rng.choice(ADV) if rng.random() < 0.7 else rng.randbytes(rng.randint(1, 6))
        return bytes(out), kind
    if kind == "edges":
        body, _ = gen_payload(rng, min(maxlen, 200), rng.choice(("adv", "text", "entropy", "empty", "one")))
        a = rng.choice(EDGES) if rng.random() < 0.8 else b""
        z = rng.choice(EDGES) if rng.random() < 0.8 else b""
        return a + body + z, kind
    raise ValueError(kind)


def gen_image(rng: random.Random, n: int) -> bytes:
    """n bytes of image-like data (the predictors are byte-wise; values matter
    for the mod-256 wrap, the Average floor and the Paeth tie-breaks)."""
    k = rng.randrange(6)
    if k == 0:
        return rng.randbytes(n)
    if k == 1:
        return bytes((i * 3 + (i // 7)) & 0xFF for i in range(n))
    if k == 2:
        return bytes(rng.choice((0, 255, 1, 254, 127, 128)) for _ in range(n))
    if k == 3:
        return bytes((rng.randrange(256),)) * n
    if k == 4:
        v = rng.randrange(256)
        out = bytearray()
        for _ in range(n):
            v = (v + rng.choice((-2, -1, 0, 0, 1, 2))) & 0xFF
            out.append(v)
        return bytes(out)
    return (TEXT * (1 + n // len(TEXT)))[:n]


# --------------------------------------------------------------------------
# predictor geometry
# --------------------------------------------------------------------------
def _divisors(n: int, limit: int) -> List[int]:
    return [d for d in range(1, min(n, limit) + 1) if n % d == 0]


def fit_geometry(rng: random.Random, n: int, png: bool) -> Dict[str, int]:
    """A geometry whose row length divides n (n == 0: any)."""
    bpc = rng.choice((8, 8, 1)) if png else 8
    if n == 0:
        rb = rng.randint(1, 40)
    else:
        ds = _divisors(n, 280)
        big = [d for d in ds if d > 1]
        rb = rng.choice(big) if (big and rng.random() < 0.9) else rng.choice(ds + ([n] if n <= 4096 else []))
    if bpc == 8:
        cs = [c for c in (1, 2, 3, 4) if rb % c == 0]
        if rng.random() < 0.08:
            cs = [c for c in (5, 6, 7, 8) if rb % c == 0] or cs
        colors = rng.choice(cs)
        columns = rb // colors
    else:
        while True:
            # 1-bit samples: a quarter of the cases have 16/24/32 components, a pixel of 2-4 whole bytes
            # (component counts that leave a partial byte are not generated: PNG defines bpp only for whole pixels)
            colors = rng.choice((1, 2, 3, 4)) if rng.random() < 0.75 else rng.choice((16, 24, 32))
            lo = ((rb - 1) * 8) // colors + 1
            hi = (rb * 8) // colors
            if lo <= hi:
                columns = rng.randint(lo, hi)
                break
    assert F.row_bytes(colors, columns, bpc) == rb
    return {"Colors": colors, "Columns": columns, "BitsPerComponent": bpc}


def random_geometry(rng: random.Random, png: bool) -> Dict[str, int]:
    bpc = rng.choice((8, 8, 1)) if png else 8
    colors = rng.choice((1, 2, 3, 4, 1, 3, rng.choice((5, 6, 8)) if rng.random() < 0.1 else 2))
    if bpc == 1 and rng.random() < 0.25:
        colors = rng.choice((16, 24, 32))                  # 1-bit pixels of 2-4 whole bytes
    columns = rng.choice((rng.randint(1, 70), rng.randint(1, 9)))
    return {"Colors": colors, "Columns": columns, "BitsPerComponent": bpc}


def pred_encode(rng: random.Random, data: bytes, parms: Dict[str, int]) -> Tuple[bytes, List[int]]:
    c, col, bpc = parms["Colors"], parms["Columns"], parms["BitsPerComponent"]
    if parms["Predictor"] == 2:
        return F.tiff2_encode(data, c, col, bpc), []
    rows = len(data) // F.row_bytes(c, col, bpc)
    p = parms["Predictor"]
    if p < 15 and rng.random() < 0.4:
        ft = [p - 10] * rows  # what an encoder announcing that predictor would write
    else:
        ft = [rng.randrange(5) for _ in range(rows)]
    return F.png_encode(data, c, col, bpc, ft), ft


# --------------------------------------------------------------------------
# building one stream case: payload, chain (with parameters), encoded bytes
# --------------------------------------------------------------------------
def build_stream_case(rng: random.Random, chain: Tuple[str, ...], maxlen: int, features: Dict[str, bool],
                      lzw_stats: Dict[str, int], pred_p: float = 0.45, payload_kind: Optional[str] = None) -> Dict[str, Any]:
    stages: List[Dict[str, Any]] = [{"f": f, "parms": None} for f in chain]
    want = [st["f"] in ("Fl", "LZW") and rng.random() < pred_p for st in stages]
    # the predictor of the innermost stage decides the shape of the payload
    pk = "image"
    if stages and want[-1]:
        png = rng.random() < 0.75
        g = random_geometry(rng, png)
        rb = F.row_bytes(g["Colors"], g["Columns"], g["BitsPerComponent"])
        rows = rng.choice((0, 1, 1, 2, 3, rng.randint(1, max(1, min(60, maxlen // rb)))))
        payload = gen_image(rng, rb * rows)
        g["Predictor"] = rng.randint(10, 15) if png else 2
        stages[-1]["parms"] = g
    else:
        payload, pk = gen_payload(rng, maxlen, payload_kind)
    data = payload
    tags: List[str] = []
    for i in range(len(stages) - 1, -1, -1):
        st = stages[i]
        if want[i]:
            if st["parms"] is None:
                png = rng.random() < 0.75
                g = fit_geometry(rng, len(data), png)
                g["Predictor"] = rng.randint(10, 15) if png else 2
                st["parms"] = g
            data, ft = pred_encode(rng, data, st["parms"])
            st["ftypes"] = ft
        else:
            r = rng.random()
            if st["f"] == "LZW" and r < 0.2:
                st["parms"] = {"EarlyChange": 1}
            elif st["f"] in ("Fl", "LZW") and r < 0.3:
                st["parms"] = {"Predictor": 1, "Columns": rng.randint(1, 9)}
        data, tag = F.encode_stage(st["f"], data, rng, features, lzw_stats)
        tags.append(tag)
    return {"payload": payload, "encoded": data, "chain": stages, "payload_kind": pk, "tags": tags[::-1]}


def audit_case(sc: Dict[str, Any]) -> None:
    """The generator's own consistency: reference decoders take `encoded` back
    to `payload`.  Failure = harness bug (raises -> exit 2)."""
    data = sc["encoded"]
    for st in sc["chain"]:
        data = F.REF_DECODE[st["f"]](data)
        p = st.get("parms")
        if p and p.get("Predictor", 1) > 1:
            data = _ref_unpredict(data, p)
    if data != sc["payload"]:
        raise AssertionError("harness bug: reference decoders do not invert the reference encoders for %r" % (
            [(st["f"], st.get("parms")) for st in sc["chain"]],))


def _ref_unpredict(data: bytes, p: Dict[str, int]) -> bytes:
    if p["Predictor"] == 2:
        return F.tiff2_decode_ref(data, p.get("Colors", 1), p.get("Columns", 1))
    return F.png_decode_ref(data, p.get("Colors", 1), p.get("Columns", 1), p.get("BitsPerComponent", 8))


# --------------------------------------------------------------------------
# calling pdfminer
# --------------------------------------------------------------------------
def _where(e: BaseException) -> str:
    tb = e.__traceback__
    fn = "?"
    while tb is not None:
        if "pdfminer" in tb.tb_frame.f_code.co_filename:
            fn = tb.tb_frame.f_code.co_name
        tb = tb.tb_next
    return fn


def pm_decode(f: str, data: bytes) -> bytes:
    if f == "LZW":
        from pdfminer.lzw import lzwdecode
        return lzwdecode(data)
    if f == "RL":
        from pdfminer.runlength import rldecode
        return rldecode(data)
    if f == "A85":
        from pdfminer.ascii85 import ascii85decode
        return ascii85decode(data)
    if f == "AHx":
        from pdfminer.ascii85 import asciihexdecode
        return asciihexdecode(data)
    if f == "Fl":
        return zlib.decompress(data)  # what PDFStream.decode calls; zlib is trusted
    raise ValueError(f)


def pm_unpredict(data: bytes, p: Dict[str, int]) -> bytes:
    from pdfminer.utils import apply_png_predictor, apply_tiff_predictor
    c, col, bpc = p.get("Colors", 1), p.get("Columns", 1), p.get("BitsPerComponent", 8)
    if p["Predictor"] == 2:
        return apply_tiff_predictor(c, col, bpc, data)
    return apply_png_predictor(p["Predictor"], c, col, bpc, data)


def _first_diff(a: bytes, b: bytes) -> str:
    n = min(len(a), len(b))
    i = next((k for k in range(n) if a[k] != b[k]), n)
    return "len %d vs expected %d, first difference at %d: got %r expected %r" % (
        len(a), len(b), i, a[i:i + 12], b[i:i + 12])


_WS_SUB = bytes.maketrans(b"\x00\x0c", b"  ")


def stage_key_decode(f: str, data: bytes, want: bytes) -> Optional[Tuple[str, str]]:
    """Run pdfminer's decoder for one filter stage; None if it returns `want`."""
    try:
        got = pm_decode(f, data)
        if got == want:
            return None
        what = "wrong_bytes"
        det = _first_diff(got, want)
    except Exception as e:  # noqa: BLE001
        what = "%s:%s" % (type(e).__name__, _where(e))
        det = repr(e)
    if f in ("AHx", "A85") and (b"\x00" in data or b"\x0c" in data):
        # tagged sub-family ws_nul_ff: the only deviation is NUL / FF used as white space
        try:
            if pm_decode(f, data.translate(_WS_SUB)) == want:
                return "decode:%s:ws_nul_ff" % f, det + " (holds when NUL/FF are replaced by SP)"
        except Exception:  # noqa: BLE001
            pass
    return "decode:%s:%s" % (f, what), det


def geom_tag(p: Dict[str, int]) -> str:
    return "bpc%d:%s" % (p.get("BitsPerComponent", 8), "multicolor" if p.get("Colors", 1) > 1 else "onecolor")


def stage_key_predict(data: bytes, p: Dict[str, int], want: bytes) -> Optional[Tuple[str, str]]:
    fam = "tiff2" if p["Predictor"] == 2 else "png"
    try:
        got = pm_unpredict(data, p)
        if got == want:
            return None
        return "predictor:%s:%s:wrong_bytes" % (fam, geom_tag(p)), _first_diff(got, want)
    except Exception as e:  # noqa: BLE001
        return "predictor:%s:%s:%s:%s" % (fam, geom_tag(p), type(e).__name__, _where(e)), repr(e)


def attribute(sc: Dict[str, Any]) -> Optional[Tuple[str, str]]:
    """Stage-by-stage comparison of pdfminer's decoder functions with the
    reference decoders on the *encoded* bytes; -> (key, detail) of the first
    stage that deviates, None if every stage is right."""
    data = sc["encoded"]
    for i, st in enumerate(sc["chain"]):
        want = F.REF_DECODE[st["f"]](data)
        r = stage_key_decode(st["f"], data, want)
        if r:
            return r[0], "stage %d (%s): %s" % (i, st["f"], r[1])
        data = want
        p = st.get("parms")
        if p and p.get("Predictor", 1) > 1:
            want = _ref_unpredict(data, p)
            r = stage_key_predict(data, p, want)
            if r:
                return r[0], "stage %d (%s %r): %s" % (i, st["f"], p, r[1])
            data = want
    return None


def observe_doc(case: Dict[str, Any]) -> List[Tuple[str, str]]:
    """Open the document, fetch the streams in the stored order, compare."""
    from pdfminer import settings
    from pdfminer.pdfdocument import PDFDocument
    from pdfminer.pdfparser import PDFParser
    from pdfminer.pdftypes import PDFStream

    fails: List[Tuple[str, str]] = []
    old = settings.STRICT
    settings.STRICT = bool(case.get("strict"))
    try:
        try:
            doc = PDFDocument(PDFParser(io.BytesIO(case["pdf"])), caching=bool(case.get("caching", True)))
        except Exception as e:  # noqa: BLE001
            return [("open:%s:%s" % (type(e).__name__, _where(e)), repr(e))]
        for sc in case["streams"]:
            desc = "obj %d chain=%s spelling=%s" % (sc["objid"], chain_name(sc["chain"]), short(sc.get("spelling"), 400))
            try:
                obj = doc.getobj(sc["objid"])
            except Exception as e:  # noqa: BLE001
                fails.append(("getobj:%s:%s" % (type(e).__name__, _where(e)), desc + ": " + repr(e)))
                continue
            if not isinstance(obj, PDFStream):
                fails.append(("getobj:not_a_stream", desc + ": got %r" % (obj,)))
                continue
            raw = obj.get_rawdata()
            if raw != sc["encoded"]:
                fails.append(("delimitation:rawdata", desc + ": " + _first_diff(raw or b"", sc["encoded"])))
                continue
            try:
                data = obj.get_data()
                ok = data == sc["payload"]
                det = "" if ok else _first_diff(data, sc["payload"])
                exc = None
            except Exception as e:  # noqa: BLE001
                ok = False
                exc = e
                det = repr(e)
            if ok:
                continue
            a = attribute(sc)
            if a is not None:
                fails.append((a[0], desc + ": " + a[1]))
            elif exc is not None:
                fails.append(("pipeline:%s:%s" % (type(exc).__name__, _where(exc)), desc + ": " + det))
            else:
                fails.append(("pipeline:wrong_bytes", desc + ": every stage decodes correctly when called directly, but get_data(): " + det))
    finally:
        settings.STRICT = old
    return fails


def chain_name(chain: List[Dict[str, Any]]) -> str:
    return "+".join(st["f"] + ("/p%d" % st["parms"]["Predictor"] if st.get("parms") and st["parms"].get("Predictor", 1) > 1 else "")
                    for st in chain) or "none"


# --------------------------------------------------------------------------
# shard kinds
# --------------------------------------------------------------------------
def _count_stream(rec, sc: Dict[str, Any], sp: Optional[Dict[str, Any]]) -> None:
    rec.see("chains", "+".join(st["f"] for st in sc["chain"]) or "none")
    rec.count("chainlen:%d" % len(sc["chain"]))
    rec.count("payload:" + sc["payload_kind"])
    for t in sc["tags"]:
        rec.see("encoder_spellings", t)
    for st in sc["chain"]:
        rec.count("stage:" + st["f"])
        p = st.get("parms")
        if p and p.get("Predictor", 1) > 1:
            rec.count("doc_pred_stages")
            _count_geom(rec, p, st.get("ftypes") or [])
    if sp is not None:
        rec.count("kw_eol:" + ("crlf" if sp["kw_eol"] == b"\r\n" else "lf"))
        rec.count("end_eol:" + {b"\n": "lf", b"\r\n": "crlf", b"\r": "cr", b"": "none"}[sp["end_eol"]])
        rec.count("dict_sep:" + {b"\n": "lf", b"\r\n": "crlf", b" ": "sp", b"": "none"}.get(sp["dict_sep"], "comment"))
        rec.count("length:" + sp["length"])
        if sc["chain"]:
            rec.count("filter_form:" + sp["filter_form"])
            rec.count("filter_ref:" + sp["filter_ref"])
            rec.count("parms_form:" + sp["parms_form"])
            if sp["parms_form"] != "absent":
                rec.count("parms_ref:" + sp["parms_ref"])
            if any(sp["abbrev"]):
                rec.count("abbreviated_names")
            if any(sp["escape"]):
                rec.count("escaped_names")


def _count_geom(rec, p: Dict[str, int], ft: List[int]) -> None:
    rec.see("png_pred_values" if p["Predictor"] >= 10 else "tiff_pred_values", p["Predictor"])
    rec.count("geom:bpc%d" % p["BitsPerComponent"])
    if p["Colors"] > 1:
        rec.count("geom:multicolor")
    if p["BitsPerComponent"] == 1 and p["Colors"] >= 16:
        rec.count("geom:bpc1_pixel_of_2plus_bytes")
    rec.see("colors", p["Colors"])
    if ft:
        rec.see("row0_filters", ft[0])
        for t in set(ft):
            rec.count("rowfilter:%d" % t)


def _flush_lzw(rec, st: Dict[str, int]) -> None:
    if not st:
        return
    rec.count("lzw_codes", st.get("codes", 0))
    rec.count("lzw_clears_full", st.get("clears_full", 0))
    rec.count("lzw_clears_early", st.get("clears_early", 0))
    rec.count("lzw_kwkwk", st.get("kwkwk", 0))
    rec.count("lzw_short_matches", st.get("short_match", 0))
    for w in (9, 10, 11, 12):
        if st.get("w%d" % w):
            rec.see("lzw_widths", w)
            rec.count("lzw_codes_w%d" % w, st["w%d" % w])
    st.clear()


def _features(rng: random.Random) -> Dict[str, bool]:
    # NUL / FF as white space inside ASCIIHex / ASCII85 data: own tagged sub-family
    return {"ws_nul_ff": rng.random() < 0.25}


def run_doc_shard(spec: Dict[str, Any], rec) -> None:
    rng = random.Random("C03/%d/%d" % (spec["seed"], spec["sub"]))
    maxlen = 3000 if spec["tier"] == "quick" else 8000
    lz: Dict[str, int] = {}
    j = spec["offset"] + 7 * spec["seed"]
    done = 0
    while done < spec["nstreams"]:
        k = min(rng.randint(1, 5), spec["nstreams"] - done)
        use_xs = rng.random() < 0.2
        items = []
        for _ in range(k):
            if rng.random() < 0.4:
                # the cycle is dominated by the 125 chains of length 3: draw extra short ones
                k2 = rng.choice((0, 1, 1, 2))
                chain = tuple(rng.choice(F.FILTERS) for _ in range(k2))
            else:
                chain = ALL_CHAINS[j % len(ALL_CHAINS)]
                j += 1
            feats = _features(rng)
            sc = build_stream_case(rng, chain, maxlen, feats, lz)
            audit_case(sc)
            has_params = any(st["parms"] is not None for st in sc["chain"])
            sp = streamdoc.random_spelling(rng, len(chain), has_params)
            if feats["ws_nul_ff"]:
                sc["ws_nul_ff"] = True
            sc["spelling"] = sp
            items.append(sc)
        if use_xs:
            pdf, sns = streamdoc.build_xrefstream_doc(rng, [(sc["encoded"], sc["chain"], sc["spelling"]) for sc in items])
            rec.count("xrefstream_docs")
        else:
            b = streamdoc.StreamDocBuilder(rng)
            sns = [b.add_stream(sc["encoded"], sc["chain"], sc["spelling"]) for sc in items]
            pdf = b.build()
            rec.count("xreftable_docs")
        for sc, n in zip(items, sns):
            sc["objid"] = n
        order = list(items)
        rng.shuffle(order)
        case = {"kind": "doc", "pdf": pdf, "caching": rng.random() < 0.7, "strict": rng.random() < 0.3,
                "streams": [_slim(sc) for sc in order]}
        fails = observe_doc(case)
        for sc in order:
            rec.case(chash(sc["payload"], sc["encoded"], _chain_desc(sc["chain"]), sc["spelling"]), len(sc["payload"]) >= 2)
            rec.count("doc_streams")
            _count_stream(rec, sc, None if use_xs else sc["spelling"])
            if use_xs:
                rec.count("xs_length:" + sc["spelling"]["length"])
        rec.count("strict_docs" if case["strict"] else "lenient_docs")
        for key, det in fails:
            rec.fail(key, case, det)
        if rec.want_sample() and k <= 2 and len(pdf) < 1500:
            rec.sample({"pdf": pdf, "streams": [{"objid": sc["objid"], "chain": chain_name(sc["chain"]), "payload": sc["payload"][:80]} for sc in order]})
        done += k
    _flush_lzw(rec, lz)


def _chain_desc(chain: List[Dict[str, Any]]) -> List[Any]:
    return [[st["f"], sorted((st.get("parms") or {}).items())] for st in chain]


def _slim(sc: Dict[str, Any]) -> Dict[str, Any]:
    return {"objid": sc["objid"], "payload": sc["payload"], "encoded": sc["encoded"],
            "chain": [{"f": st["f"], "parms": st.get("parms")} for st in sc["chain"]],
            "spelling": {k: v for k, v in sc["spelling"].items()}}


def check_direct(case: Dict[str, Any]) -> List[Tuple[str, str]]:
    want = case["payload"]
    r = stage_key_decode(case["f"], case["encoded"], want)
    return [(r[0], "direct %s on %d encoded bytes (%s): %s" % (case["f"], len(case["encoded"]), case.get("tag"), r[1]))] if r else []


def run_direct_shard(spec: Dict[str, Any], rec) -> None:
    rng = random.Random("C03/%d/%d" % (spec["seed"], spec["sub"]))
    maxlen = 3000 if spec["tier"] == "quick" else 12000
    lz: Dict[str, int] = {}
    for i in range(spec["n"]):
        kind = PAYLOAD_KINDS[i % len(PAYLOAD_KINDS)]
        payload, pk = gen_payload(rng, maxlen, kind)
        for f in ("LZW", "RL", "A85", "AHx"):
            for _ in range(2):
                feats = _features(rng)
                enc, tag = F.encode_stage(f, payload, rng, feats, lz)
                if F.REF_DECODE[f](enc) != payload:
                    raise AssertionError("harness bug: reference %s decoder/encoder disagree (%s)" % (f, tag))
                case = {"kind": "direct", "f": f, "payload": payload, "encoded": enc, "tag": tag}
                rec.case(chash("direct", f, enc), len(payload) >= 2)
                rec.count("direct:" + f)
                rec.count("payload:" + pk)
                rec.see("encoder_spellings", tag)
                for key, det in check_direct(case):
                    rec.fail(key, case, det)
    _flush_lzw(rec, lz)


def check_pred(case: Dict[str, Any]) -> List[Tuple[str, str]]:
    r = stage_key_predict(case["encoded"], case["parms"], case["payload"])
    return [(r[0], "direct predictor %r rows=%s: %s" % (case["parms"], case.get("ftypes"), r[1]))] if r else []


def _pred_case(rec, parms: Dict[str, int], payload: bytes, ft: List[int], fam: str) -> None:
    if parms["Predictor"] == 2:
        enc = F.tiff2_encode(payload, parms["Colors"], parms["Columns"], 8)
    else:
        enc = F.png_encode(payload, parms["Colors"], parms["Columns"], parms["BitsPerComponent"], ft)
    if _ref_unpredict(enc, parms) != payload:
        raise AssertionError("harness bug: reference predictor does not invert for %r %r" % (parms, ft))
    case = {"kind": "pred", "parms": parms, "payload": payload, "encoded": enc, "ftypes": ft}
    rec.case(chash("pred", sorted(parms.items()), enc), len(payload) >= 2)
    rec.count(fam)
    _count_geom(rec, parms, ft)
    for key, det in check_pred(case):
        rec.fail(key, case, det)


def run_pngexh_shard(spec: Dict[str, Any], rec) -> None:
    rng = random.Random("C03/%d/%d" % (spec["seed"], spec["sub"]))
    q = spec["tier"] == "quick"
    bpc, colors = spec["bpc"], spec["colors"]
    cols = (1, 2, 3, 5) if bpc == 8 else (1, 2, 3, 7, 8, 9, 16, 17)
    maxrows = 4 if q else 6
    reps = 2 if q else 3
    n = 0
    for columns in cols:
        rb = F.row_bytes(colors, columns, bpc)
        for rows in range(1, maxrows + 1):
            if rows >= 5 and columns not in cols[:3 if rows == 5 else 1]:
                continue
            for ft in itertools.product(range(5), repeat=rows):
                for _ in range(reps):
                    payload = gen_image(rng, rb * rows)
                    parms = {"Predictor": 10 + n % 6, "Colors": colors, "Columns": columns, "BitsPerComponent": bpc}
                    n += 1
                    _pred_case(rec, parms, payload, list(ft), "pngexh_cases")
    rec.see("pngexh_geometries", "bpc%d colors%d columns%s rows<=%d" % (bpc, colors, list(cols), maxrows))
    # TIFF predictor 2 (bpc 8 only) for the same number of colours
    if bpc == 8:
        for columns in list(range(1, 20)) + [31, 32, 33, 64, 70]:
            for rows in (1, 2, 3, 7):
                for _ in range(6 if q else 30):
                    payload = gen_image(rng, colors * columns * rows)
                    _pred_case(rec, {"Predictor": 2, "Colors": colors, "Columns": columns, "BitsPerComponent": 8}, payload, [], "tiff_cases")
    else:
        # paeth_predictor against PNG 6.6 on a value lattice (one quarter per shard)
        from pdfminer.utils import paeth_predictor
        vals = [0, 1, 2, 3, 4, 63, 64, 65, 126, 127, 128, 129, 130, 191, 192, 193, 251, 252, 253, 254, 255]
        vals += [rng.randrange(256) for _ in range(11 if q else 60)]
        mine = vals[colors - 1::4]
        for a in mine:
            for b in vals:
                for c in vals:
                    rec.count("paeth_triples")
                    try:
                        got = paeth_predictor(a, b, c)
                    except Exception as e:  # noqa: BLE001
                        got = repr(e)
                    if got != F.paeth(a, b, c):
                        rec.fail("paeth_predictor", {"kind": "paeth", "abc": [a, b, c]},
                                 "paeth_predictor(%d,%d,%d) = %r, PNG 6.6 gives %d" % (a, b, c, got, F.paeth(a, b, c)))
        rec.case(chash("paeth", spec["colors"]), True)


def run_predrand_shard(spec: Dict[str, Any], rec) -> None:
    rng = random.Random("C03/%d/%d" % (spec["seed"], spec["sub"]))
    for _ in range(spec["n"]):
        png = rng.random() < 0.75
        g = random_geometry(rng, png)
        g["Predictor"] = rng.randint(10, 15) if png else 2
        rb = F.row_bytes(g["Colors"], g["Columns"], g["BitsPerComponent"])
        rows = rng.choice((1, 2, 5, rng.randint(1, 40)))
        payload = gen_image(rng, rb * rows)
        if png:
            k = rng.randrange(3)
            ft = [rng.randrange(5) for _ in range(rows)] if k else [rng.randrange(5)] * rows
        else:
            ft = []
        _pred_case(rec, g, payload, ft, "predrand_cases")


def run_big_shard(spec: Dict[str, Any], rec) -> None:
    rng = random.Random("C03/%d/%d" % (spec["seed"], spec["sub"]))
    q = spec["tier"] == "quick"
    lz: Dict[str, int] = {}
    for i in range(spec["n"]):
        n = rng.choice((rng.randint(5000, 12000), rng.randint(12000, 40000))) if q else rng.choice(
            (rng.randint(5000, 20000), rng.randint(20000, 80000), rng.randint(80000, 200000)))
        kind = ("entropy", "twosym", "text", "runs", "all256", "zeros4")[(i + spec["sub"]) % 6]
        if kind in ("entropy", "twosym"):
            payload, pk = gen_payload(rng, n, kind)
            payload = (payload * (1 + n // max(1, len(payload))))[:n] if len(payload) < n // 2 else payload
            if len(payload) < n:
                payload = payload + (rng.randbytes(n - len(payload)) if kind == "entropy" else payload[: n - len(payload)])
        else:
            base, pk = gen_payload(rng, 4000, kind)
            payload = (base * (1 + n // max(1, len(base))))[:n]
            # break the periodicity so that the LZW table keeps growing
            payload = bytes(b ^ (rng.randrange(256) if rng.random() < 0.02 else 0) for b in payload)
        chain = rng.choice((("LZW",), ("LZW",), ("A85", "LZW"), ("LZW", "RL"), ("AHx", "LZW"), ("Fl", "LZW"), ("LZW", "Fl"),
                            ("RL",), ("A85", "Fl")))
        feats = {"ws_nul_ff": False}
        stages: List[Dict[str, Any]] = [{"f": f, "parms": None} for f in chain]
        data = payload
        tags = []
        if chain[-1] == "LZW" and rng.random() < 0.4:
            png = rng.random() < 0.7
            g = fit_geometry(rng, len(payload), png)
            g["Predictor"] = rng.randint(10, 15) if png else 2
            stages[-1]["parms"] = g
            data, ft = pred_encode(rng, data, g)
            stages[-1]["ftypes"] = ft
        for st in reversed(stages):
            data, tag = F.encode_stage(st["f"], data, rng, feats, lz)
            tags.append(tag)
        sc = {"payload": payload, "encoded": data, "chain": stages, "payload_kind": pk, "tags": tags[::-1]}
        audit_case(sc)
        sp = streamdoc.random_spelling(rng, len(chain), any(st["parms"] for st in stages))
        sc["spelling"] = sp
        b = streamdoc.StreamDocBuilder(rng)
        sc["objid"] = b.add_stream(sc["encoded"], sc["chain"], sp)
        case = {"kind": "doc", "pdf": b.build(), "caching": True, "strict": rng.random() < 0.3, "streams": [_slim(sc)]}
        fails = observe_doc(case)
        rec.case(chash(payload, data, _chain_desc(stages), sp), True)
        rec.count("big_streams")
        rec.count("big_bytes", len(payload))
        rec.count("doc_streams")
        _count_stream(rec, sc, sp)
        for key, det in fails:
            rec.fail(key, case, det)
    _flush_lzw(rec, lz)


def run_delim_shard(spec: Dict[str, Any], rec) -> None:
    """Unfiltered streams: every (leading edge, trailing edge, EOL after the
    keyword, EOL before endstream, Length mode, separator) combination; the body
    between the edges is drawn at random."""
    rng = random.Random("C03/%d/%d" % (spec["seed"], spec["sub"]))
    a = DELIM_EDGES[spec["first"]]
    for _ in range(spec["reps"]):
        for z in DELIM_EDGES:
            for kw in streamdoc.KW_EOLS:
                for end in streamdoc.END_EOLS:
                    for lm in streamdoc.LENGTH_MODES:
                        for sep in DELIM_SEPS:
                            body = rng.choice((b"", b"x", b"endstream", b"\n", b"\r", rng.randbytes(rng.randint(1, 30)),
                                               b"a\nendstream\nb", b"abc" * rng.randint(1, 2000)))
                            payload = a + body + z
                            sp = streamdoc.random_spelling(rng, 0, False)
                            sp.update({"kw_eol": kw, "end_eol": end, "length": lm, "dict_sep": sep})
                            b = streamdoc.StreamDocBuilder(rng)
                            # a second stream after/before it shows that the parser is left in a sane state
                            other = rng.randbytes(5) + rng.choice(DELIM_EDGES)
                            sc2 = {"payload": other, "encoded": other, "chain": [], "spelling": streamdoc.random_spelling(rng, 0, False)}
                            sc = {"payload": payload, "encoded": payload, "chain": [], "spelling": sp}
                            pair = [sc, sc2] if rng.random() < 0.5 else [sc2, sc]
                            for x in pair:
                                x["objid"] = b.add_stream(x["encoded"], [], x["spelling"])
                            if rng.random() < 0.5:
                                pair.reverse()
                            case = {"kind": "doc", "pdf": b.build(), "caching": rng.random() < 0.7, "strict": rng.random() < 0.3,
                                    "streams": [_slim(x) for x in pair]}
                            rec.case(chash(payload, sp), len(payload) >= 2)
                            rec.count("delim_cases")
                            rec.count("kw_eol:" + ("crlf" if kw == b"\r\n" else "lf"))
                            rec.count("length:" + lm)
                            for key, det in observe_doc(case):
                                rec.fail(key, case, det)
    rec.see("delim_edges", repr(a))


def run_shard(spec: Dict[str, Any], rec) -> None:
    quiet_logging()
    {"doc": run_doc_shard, "direct": run_direct_shard, "pngexh": run_pngexh_shard, "predrand": run_predrand_shard,
     "big": run_big_shard, "delim": run_delim_shard}[spec["kind"]](spec, rec)


def replay(case: Dict[str, Any]) -> List[Tuple[str, str]]:
    quiet_logging()
    k = case.get("kind")
    if k == "doc":
        return observe_doc(case)
    if k == "direct":
        return check_direct(case)
    if k == "pred":
        return check_pred(case)
    if k == "paeth":
        from pdfminer.utils import paeth_predictor
        a, b, c = case["abc"]
        got = paeth_predictor(a, b, c)
        return [] if got == F.paeth(a, b, c) else [("paeth_predictor", "paeth_predictor(%d,%d,%d) = %r" % (a, b, c, got))]
    raise ValueError("unknown case kind %r" % k)
