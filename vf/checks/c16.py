"""C16 — painted paths become shapes with the right points, class and graphics state.

Workload: random programs over m l c v y h re, S s f f* B B* b b* n (and W W*),
w d, g G rg RG k K cs CS sc scn SC SCN (device colour spaces and resource-defined
ICCBased / DeviceN spaces with 1, 3 or 4 components), q Q cm, with dyadic operands
and CTMs including 90-degree rotations, reflections, shears and scalings.

Observation: LTLine / LTRect / LTCurve items collected with PDFPageAggregator.
Oracle: vf.ref.gmodel.PathModel (exact rationals): one shape per painted subpath
with >=1 segment, in order, with transformed points, class, flags, line width,
dash pattern and colours in force; nothing for `n`, no residue afterwards.
"""
from __future__ import annotations

import io
import random
from fractions import Fraction as F
from typing import Any, Dict, List, Optional, Tuple

from vf.common import chash
from vf.gen.pdfw import Doc, N, Name, Stream
from vf.ref.gmodel import IDENT, NEVER_SET, UNKNOWN, Op, PathModel, Shape, emit_tokens

ID = "C16"
LEVEL = "exploration"
DESIGN_REF = "DESIGN.md#C16"
TECHNIQUE = "runtime monitoring: generated path/painting programs run by the real interpreter; exact-rational reference path and graphics-state model as oracle"
LEVEL_TEXT = (
    'Exploration against a reference model: random path/painting programs with graphics-state changes are executed by the real interpreter and an exact-rational path model; shape count, points, class, flags, line width, dash and colours are compared exactly. Right level for an unbounded program space with a small exact specification.'
)
RULE = (
    "random programs of 3-14 path objects (1-4 subpaths each: m l c v y h re; painted by S s f f* B B* b b* or ended by n, "
    "optionally clipped W/W*) interleaved with q Q cm w d and colour operators g G rg RG k K cs CS sc scn SC SCN (Device "
    "spaces and ICCBased N=1/3/4, DeviceN with 1/3/4 names); dyadic operands; CTMs incl. rotations by 90, reflections, "
    "shears, scalings; in 30% of the cases the judged page follows another page (leaving w, d, colours behind) in the same interpreter and must equal the page interpreted alone; a quarter of the pages also carry one glyph and are read through extract_pages with laparams None / default / boxes_flow=None / all_texts, which must deliver the same shapes; ColorSpace resources include parameterless families spelled as one-element arrays. distinct = distinct content bytes; non-trivial = >=2 painted subpaths and >=6 distinct operators. "
    "Not generated (statement silent / ISO forbids): graphics-state operators inside a path object, segments after h without "
    "a new m, a painted path consisting of a single m, degenerate rectangles are class-agnostic, 'm l h' is class-agnostic "
    "(line or curve), colour spaces with other component counts, Pattern/Separation spaces, cs/CS not followed by a colour."
)
ASSUMPTIONS = [
    "the reference model vf/ref/gmodel.py (PathModel) implements ISO 32000-1 8.5.2-8.5.3 and the graphics-state rules of 8.4",
    "LTRect reports the four corners (pts) and the full transformed path (original_path); LTLine reports the two end points",
    "a parameter the program never set is not asserted (pdfminer's initial values differ from the PDF defaults, e.g. line width 0)",
]
SHARD_TIMEOUT = {"quick": 600, "thorough": 5400}


def minimums(tier: str) -> Dict[str, int]:
    if tier == "quick":
        return {"evaluations": 1400, "distinct": 1300, "shapes_compared": 12000, "class:line": 800, "class:rect": 1200,
                "class:curve": 3000, "n_ended_paths": 800, "seen:operators": 35, "colours_asserted": 8000, "pages_judged_after_an_earlier_page": 350,
                "pages_through_layout_analysis:flow_none": 50, "pages_through_layout_analysis:default": 50, "pages_through_layout_analysis:all_texts": 50}
    return {"evaluations": 40000, "distinct": 38000, "shapes_compared": 350000, "class:line": 25000, "class:rect": 35000,
            "class:curve": 90000, "n_ended_paths": 25000, "seen:operators": 35, "colours_asserted": 250000, "pages_judged_after_an_earlier_page": 10000,
            "pages_through_layout_analysis:flow_none": 1500, "pages_through_layout_analysis:default": 1500, "pages_through_layout_analysis:all_texts": 1500}


def shards(tier: str, seed: int) -> List[Dict[str, Any]]:
    q = tier == "quick"
    return [{"kind": "prog", "sub": i, "n": 50 if q else 560} for i in range(32 if q else 80)]


def dy(rng: random.Random, lo: int, hi: int, den: int = 4) -> F:
    return F(rng.randint(lo * den, hi * den), den)


CMS = [(1, 0, 0, 1), (0, 1, -1, 0), (-1, 0, 0, -1), (0, -1, 1, 0), (2, 0, 0, 2), (F(1, 2), 0, 0, F(1, 2)), (1, 0, 0, -1),
       (1, F(1, 2), 0, 1), (1, 0, F(1, 4), 1), (2, 0, 0, F(1, 2)), (-1, 0, 0, 1), (1, 1, -1, 1), (0, 2, -3, 0)]
PAINTS = ["S", "s", "f", "f*", "B", "B*", "b", "b*"]


class Gen:
    wide: frozenset = frozenset()      # colour spaces whose components range beyond 0..1 (Lab, ICCBased with /Range)

    def __init__(self, rng: random.Random, csnames: Dict[str, int]) -> None:
        self.rng = rng
        self.csnames = csnames
        self.ops: List[Op] = []
        self.fill_n = 1     # components of the current non-stroking colour space
        self.stroke_n = 1
        self.stack: List[Tuple[int, int]] = []

    def pt(self) -> List[F]:
        return [dy(self.rng, -50, 150), dy(self.rng, -50, 150)]

    def colour(self) -> None:
        rng = self.rng
        r = rng.random()
        comps = lambda k: [dy(rng, 0, 1, 8) for _ in range(k)]  # noqa: E731
        if r < 0.12:
            self.ops.append(Op("g", comps(1))); self.fill_n = 1
        elif r < 0.24:
            self.ops.append(Op("G", comps(1))); self.stroke_n = 1
        elif r < 0.36:
            self.ops.append(Op("rg", comps(3))); self.fill_n = 3
        elif r < 0.48:
            self.ops.append(Op("RG", comps(3))); self.stroke_n = 3
        elif r < 0.56:
            self.ops.append(Op("k", comps(4))); self.fill_n = 4
        elif r < 0.64:
            self.ops.append(Op("K", comps(4))); self.stroke_n = 4
        elif r < 0.76:
            name = rng.choice(sorted(self.csnames))
            self.ops.append(Op("cs", [Name(name)]))
            self.fill_n = self.csnames[name]
            self.ops.append(Op(rng.choice(["sc", "scn"]), [dy(rng, -100, 100, 4) for _ in range(self.fill_n)] if name in self.wide else comps(self.fill_n)))
        elif r < 0.88:
            name = rng.choice(sorted(self.csnames))
            self.ops.append(Op("CS", [Name(name)]))
            self.stroke_n = self.csnames[name]
            self.ops.append(Op(rng.choice(["SC", "SCN"]), [dy(rng, -100, 100, 4) for _ in range(self.stroke_n)] if name in self.wide else comps(self.stroke_n)))
        elif r < 0.94:
            self.ops.append(Op(rng.choice(["sc", "scn"]), comps(self.fill_n)))
        else:
            self.ops.append(Op(rng.choice(["SC", "SCN"]), comps(self.stroke_n)))

    def subpath(self) -> None:
        rng = self.rng
        r = rng.random()
        ops = self.ops
        if r < 0.2:
            x, y = self.pt()
            w = dy(rng, 1, 60) * rng.choice([1, 1, -1])
            h = dy(rng, 1, 60) * rng.choice([1, 1, -1])
            ops.append(Op("re", [x, y, w, h]))
            return
        if r < 0.3:     # the re-equivalent written out, x-first or y-first, closed by h, by a 4th l, or both
            x, y = self.pt()
            w, h = dy(rng, 1, 60), dy(rng, 1, 60)
            corners = [(x, y), (x + w, y), (x + w, y + h), (x, y + h)]
            if rng.random() < 0.5:
                corners = [corners[0], corners[3], corners[2], corners[1]]
            ops.append(Op("m", list(corners[0])))
            for c in corners[1:]:
                ops.append(Op("l", list(c)))
            how = rng.choice(["h", "l", "lh", "open", "open5", "slant", "slant"])
            if how == "slant":   # three axis-aligned sides, a slanted closing side: a closed quadrilateral, NOT a rectangle
                cs = [list(c) for c in corners]
                axis = 0 if corners[1][1] == corners[0][1] else 1   # x-first ordering: shift an x; y-first: shift a y
                cs[rng.choice([0, 3])][axis] += dy(rng, 1, 9) / 4
                del ops[-4:]
                ops.append(Op("m", list(cs[0])))
                for c in cs[1:]:
                    ops.append(Op("l", list(c)))
                ops.append(Op("h") if rng.random() < 0.5 else Op("l", list(cs[0])))
                return
            if how == "open5":   # a fourth segment that does NOT return to the start: not a closed quadrilateral
                ops.append(Op("l", [corners[0][0] + dy(rng, 1, 9), corners[0][1] + rng.choice([0, 0, dy(rng, 1, 9)])]))
                return
            if "l" in how:
                ops.append(Op("l", list(corners[0])))
            if "h" in how:
                ops.append(Op("h"))
            return
        if r < 0.4:     # single line, possibly closed
            ops.append(Op("m", self.pt()))
            ops.append(Op("l", self.pt()))
            if rng.random() < 0.25:
                ops.append(Op("h"))
            return
        if r < 0.45:    # a lone m (zero segments) followed by a real subpath
            ops.append(Op("m", self.pt()))
            ops.append(Op("m", self.pt()))
            ops.append(Op("l", self.pt()))
            return
        ops.append(Op("m", self.pt()))
        for _ in range(rng.randint(1, 6)):
            k = rng.random()
            if k < 0.55:
                ops.append(Op("l", self.pt()))
            elif k < 0.75:
                ops.append(Op("c", self.pt() + self.pt() + self.pt()))
            elif k < 0.87:
                ops.append(Op("v", self.pt() + self.pt()))
            else:
                ops.append(Op("y", self.pt() + self.pt()))
        if rng.random() < 0.35:
            ops.append(Op("h"))

    def path_object(self) -> None:
        rng = self.rng
        for _ in range(rng.choice([1, 1, 1, 2, 3, 4])):
            self.subpath()
        if rng.random() < 0.15:
            self.ops.append(Op(rng.choice(["W", "W*"])))
        if rng.random() < 0.15:
            self.ops.append(Op("n"))
        else:
            self.ops.append(Op(rng.choice(PAINTS)))

    def build(self, nseg: int) -> List[Op]:
        rng = self.rng
        for _ in range(nseg):
            r = rng.random()
            if r < 0.45:
                self.path_object()
            elif r < 0.53:
                self.ops.append(Op("q"))
                self.stack.append((self.fill_n, self.stroke_n))
            elif r < 0.61 and self.stack:
                self.ops.append(Op("Q"))
                self.fill_n, self.stroke_n = self.stack.pop()
                if rng.random() < 0.5:   # a colour in the restored colour space, without naming the space again
                    if rng.random() < 0.5:
                        self.ops.append(Op(rng.choice(["sc", "scn"]), [dy(rng, 0, 1, 8) for _ in range(self.fill_n)]))
                    else:
                        self.ops.append(Op(rng.choice(["SC", "SCN"]), [dy(rng, 0, 1, 8) for _ in range(self.stroke_n)]))
            elif r < 0.69:
                a, b, c, d = rng.choice(CMS)
                self.ops.append(Op("cm", [F(a), F(b), F(c), F(d), dy(rng, -40, 40), dy(rng, -40, 40)]))
            elif r < 0.76:
                self.ops.append(Op("w", [dy(rng, 0, 6, 8)]))
            elif r < 0.82:
                arr = [dy(rng, 0, 6, 2) for _ in range(rng.choice([0, 1, 2, 2, 4]))]
                if arr and all(x == 0 for x in arr):
                    arr[0] = F(3)
                self.ops.append(Op("d", [arr, dy(rng, 0, 4, 2)]))
            else:
                self.colour()
        while self.stack:
            self.ops.append(Op("Q"))
            self.fill_n, self.stroke_n = self.stack.pop()
        if rng.random() < 0.5:
            self.path_object()   # shapes painted after all Q: restored state
        return self.ops


def gen_case(seed_str: str, tier: str) -> Dict[str, Any]:
    rng = random.Random(seed_str)
    doc = Doc()
    # resource-defined colour spaces with 1, 3 or 4 components
    csres: Dict[str, Any] = {}
    csn: Dict[str, int] = {"DeviceGray": 1, "DeviceRGB": 3, "DeviceCMYK": 4}
    wide: set = set()
    for i in range(rng.choice([1, 2, 3])):
        ncomp = rng.choice([1, 3, 4])
        name = "Cs%d" % i
        r = rng.random()
        if r < 0.25:
            # a parameterless family spelled as a one-element array (8.6.3: "a name or an array whose first element is the family")
            fam = {1: "DeviceGray", 3: "DeviceRGB", 4: "DeviceCMYK"}[ncomp]
            csres[name] = [N(fam)] if rng.random() < 0.7 else doc.add([N(fam)])
        elif r < 0.4 and ncomp == 3:
            # CIE L*a*b*: components range over 0..100 and -100..100 (8.6.5.4), far outside the device range
            csres[name] = [N("Lab"), {"WhitePoint": [0.9505, 1, 1.089], "Range": [-100, 100, -100, 100]}]
            wide.add(name)
        elif r < 0.7:
            icc = doc.add(Stream({"N": ncomp}, b"\x00" * 16))
            csres[name] = [N("ICCBased"), icc] if rng.random() < 0.7 else doc.add([N("ICCBased"), icc])
        else:
            names = [N("Ink%d" % j) for j in range(ncomp)]
            alt = {1: N("DeviceGray"), 3: N("DeviceRGB"), 4: N("DeviceCMYK")}[ncomp]
            fn = {"FunctionType": 2, "Domain": [0, 1] * ncomp, "C0": [0] * ncomp, "C1": [1] * ncomp, "N": 1}
            csres[name] = [N("DeviceN"), names, alt, fn]
        csn[name] = ncomp
    g = Gen(rng, csn)
    g.wide = frozenset(wide)
    ops = g.build(rng.randint(5, 16) if tier == "quick" else rng.randint(5, 30))
    content = b" ".join(emit_tokens(ops))
    with_text = rng.random() < 0.25     # a glyph on the page: layout analysis then runs its full course around the shapes
    if with_text:
        content += b" BT /F1 8 Tf 5 5 Td (t) Tj ET"
    cat = doc.alloc()
    pages = doc.alloc()
    kids = []
    if rng.random() < 0.3:
        # an earlier page, interpreted first by the same interpreter, that leaves line width, dash pattern, colours and
        # colour spaces behind: the judged page starts from the initial graphics state all the same (8.4.1)
        g0 = Gen(random.Random(seed_str + "/before"), csn)
        before = b" ".join(emit_tokens(g0.build(rng.randint(4, 10)))) + b" 5 w [3 1] 2 d 0.5 0.25 0.75 RG 0.25 0.5 0 1 k"
        kids.append(doc.add({"Type": N("Page"), "Parent": pages, "MediaBox": [0, 0, 612, 792], "Resources": {"ColorSpace": csres},
                             "Contents": doc.add(Stream({}, before))}))
    page = doc.add({"Type": N("Page"), "Parent": pages, "MediaBox": [0, 0, 612, 792],
                    "Resources": {"ColorSpace": csres, "Font": {"F1": {"Type": N("Font"), "Subtype": N("Type1"), "BaseFont": N("Helvetica")}}},
                    "Contents": doc.add(Stream({}, content))})
    kids.append(page)
    doc.set(pages, {"Type": N("Pages"), "Kids": kids, "Count": len(kids)})
    doc.set(cat, {"Type": N("Catalog"), "Pages": pages})
    doc.trailer["Root"] = cat
    return {"pdf": doc.build(), "ops": ops, "content": content, "cs": {k: v for k, v in csn.items() if k.startswith("Cs")},
            "pages_before": len(kids) - 1, "with_text": with_text, "laparams": rng.choice(["none", "default", "flow_none", "all_texts"])}


def observe(pdf: bytes, last_only: bool = False) -> List[Any]:
    from pdfminer.converter import PDFPageAggregator
    from pdfminer.layout import LTCurve
    from pdfminer.pdfinterp import PDFPageInterpreter, PDFResourceManager
    from pdfminer.pdfpage import PDFPage

    rm = PDFResourceManager()
    dev = PDFPageAggregator(rm, laparams=None)
    it = PDFPageInterpreter(rm, dev)
    pages = list(PDFPage.get_pages(io.BytesIO(pdf)))
    for page in (pages[-1:] if last_only else pages):   # one interpreter for all pages; the LAST page is judged
        it.process_page(page)
    lt = dev.get_result()
    return [x for x in lt if isinstance(x, LTCurve)]


def observe_layout(pdf: bytes, which: str) -> List[Any]:
    from pdfminer.high_level import extract_pages
    from pdfminer.layout import LAParams, LTContainer, LTCurve

    la = {"none": None, "default": LAParams(), "flow_none": LAParams(boxes_flow=None), "all_texts": LAParams(all_texts=True)}[which]
    pages = list(extract_pages(io.BytesIO(pdf), laparams=la))
    out: List[Any] = []

    def walk(it: Any) -> None:
        if isinstance(it, LTCurve):
            out.append(it)
        elif isinstance(it, LTContainer):
            for c in it:
                walk(c)

    walk(pages[-1])
    return out


def fl(p: Any) -> Tuple[float, float]:
    return (float(p[0]), float(p[1]))


def colour_ok(got: Any, exp: Any) -> bool:
    if exp is NEVER_SET or exp is UNKNOWN:
        return True
    if isinstance(exp, tuple):
        return isinstance(got, tuple) and len(got) == len(exp) and all(float(a) == float(b) for a, b in zip(got, exp))
    return got is not None and not isinstance(got, tuple) and float(got) == float(exp)


def compare(case: Dict[str, Any], rec: Any = None) -> List[Tuple[str, str]]:
    from pdfminer.layout import LTLine, LTRect

    exp: List[Shape] = PathModel(case["cs"]).run(case["ops"], ctm=IDENT)
    try:
        got = observe(case["pdf"])
    except Exception as e:  # noqa: BLE001
        tb = e.__traceback__
        fn = "?"
        while tb is not None:
            if "pdfminer" in tb.tb_frame.f_code.co_filename:
                fn = tb.tb_frame.f_code.co_name
            tb = tb.tb_next
        return [("exception:%s:%s" % (type(e).__name__, fn), "%s: %s" % (type(e).__name__, e))]
    if case.get("pages_before"):
        # the same page interpreted alone by a fresh interpreter: nothing an earlier page did may show
        def sig(x: Any) -> Any:
            return (type(x).__name__, repr(x.pts), repr(x.linewidth), repr(x.dashing_style), repr(x.stroking_color),
                    repr(x.non_stroking_color), x.stroke, x.fill, x.evenodd)

        alone = observe(case["pdf"], last_only=True)
        if rec is not None:
            rec.count("pages_judged_after_an_earlier_page")
        if [sig(x) for x in alone] != [sig(x) for x in got]:
            d = next((i for i, (a, b) in enumerate(zip(alone, got)) if sig(a) != sig(b)), min(len(alone), len(got)))
            return [("page_state_leak", "shape #%d of the page differs when an earlier page was interpreted first: alone %s, after %s" % (
                d, sig(alone[d]) if d < len(alone) else None, sig(got[d]) if d < len(got) else None))]
    if case.get("with_text"):
        # the same shapes through extract_pages with layout analysis switched on: analysis regroups text only
        lp = observe_layout(case["pdf"], case["laparams"])
        if rec is not None:
            rec.count("pages_through_layout_analysis:" + case["laparams"])

        def sig2(x: Any) -> Any:
            return (type(x).__name__, repr(x.pts), repr(x.linewidth), x.stroke, x.fill, x.evenodd, repr(x.stroking_color), repr(x.non_stroking_color))

        if sorted(map(repr, map(sig2, lp))) != sorted(map(repr, map(sig2, got))):
            return [("shapes_lost_in_layout:" + case["laparams"], "extract_pages(laparams=%s) yields %d shapes, the interpreter produced %d" % (
                case["laparams"], len(lp), len(got)))]
    if len(got) != len(exp):
        return [("shape_count", "expected %d shapes, got %d; expected ops %s; got %s" % (
            len(exp), len(got), ["".join(s.ops) for s in exp][:12], [type(x).__name__ + ":%d" % len(x.pts) for x in got][:12]))]
    fails: List[Tuple[str, str]] = []
    for s, o in zip(exp, got):
        if rec is not None:
            rec.count("shapes_compared")
        where = "shape #%d (%s)" % (s.index, "".join(s.ops))
        klass = "line" if isinstance(o, LTLine) else "rect" if isinstance(o, LTRect) else "curve"
        if klass not in s.klass.split("|"):
            fails.append(("class:%s_as_%s" % (s.klass, klass), "%s: classified %s, expected %s; pts %r" % (where, klass, s.klass, [fl(p) for p in s.pts])))
            break
        if rec is not None:
            rec.count("class:" + klass)
        opts = [[fl(p) for p in s.pts]]
        if s.pts_elided is not None:
            opts.append([fl(p) for p in s.pts_elided])
        gp = [fl(p) for p in o.pts]
        if klass == "rect":
            if set(gp) != {fl(p) for p in s.corners}:
                fails.append(("pts:rect", "%s: rect pts %r expected corners %r" % (where, gp, sorted(fl(p) for p in s.corners))))
                break
        elif klass == "line":
            if gp != opts[0][:2]:
                fails.append(("pts:line", "%s: line pts %r expected %r" % (where, gp, opts[0][:2])))
                break
        elif gp not in opts:
            fails.append(("pts:curve", "%s: pts %r expected %r" % (where, gp, opts[0])))
            break
        xs = [p[0] for p in gp]
        ys = [p[1] for p in gp]
        if tuple(o.bbox) != (min(xs), min(ys), max(xs), max(ys)):
            fails.append(("bbox", "%s: bbox %r is not the hull of pts %r" % (where, o.bbox, gp)))
            break
        eop = [(n, [fl(p) for p in ps]) for n, ps in s.original_path]
        gop = [(seg[0], [fl(p) for p in seg[1:]]) for seg in (o.original_path or [])]
        if gop != eop:
            fails.append(("original_path", "%s: original_path %r expected %r" % (where, gop, eop)))
            break
        if (o.stroke, o.fill, o.evenodd) != (s.stroke, s.fill, s.evenodd):
            fails.append(("flags", "%s: stroke/fill/evenodd %r expected %r" % (where, (o.stroke, o.fill, o.evenodd), (s.stroke, s.fill, s.evenodd))))
            break
        if s.linewidth not in (NEVER_SET, UNKNOWN) and float(o.linewidth) != float(s.linewidth):
            fails.append(("linewidth", "%s: linewidth %r expected %s" % (where, o.linewidth, float(s.linewidth))))
            break
        if s.dash not in (NEVER_SET, UNKNOWN):
            try:
                gd = ([float(x) for x in o.dashing_style[0]], float(o.dashing_style[1]))
            except Exception:  # noqa: BLE001
                gd = o.dashing_style
            if gd != ([float(x) for x in s.dash[0]], float(s.dash[1])):
                fails.append(("dash", "%s: dashing_style %r expected %r" % (where, o.dashing_style, s.dash)))
                break
        if rec is not None:
            rec.count("colours_asserted", (s.scolor not in (NEVER_SET, UNKNOWN)) + (s.ncolor not in (NEVER_SET, UNKNOWN)))
        if not colour_ok(o.stroking_color, s.scolor):
            fails.append(("stroking_color", "%s: stroking_color %r expected %r" % (where, o.stroking_color, s.scolor)))
            break
        if not colour_ok(o.non_stroking_color, s.ncolor):
            fails.append(("non_stroking_color", "%s: non_stroking_color %r expected %r" % (where, o.non_stroking_color, s.ncolor)))
            break
    return fails


def run_shard(spec: Dict[str, Any], rec) -> None:
    tier = spec["tier"]
    for i in range(spec["n"]):
        s = "C16/%d/%d/%d" % (spec["seed"], spec["sub"], i)
        case = gen_case(s, tier)
        fails = compare(case, rec)
        names = {op.name for op in case["ops"]}
        for n in names:
            rec.see("operators", n)
        rec.count("n_ended_paths", sum(1 for op in case["ops"] if op.name == "n"))
        npaint = sum(1 for op in case["ops"] if op.name in PAINTS)
        rec.case(chash(case["content"]), npaint >= 2 and len(names) >= 6)
        for key, detail in fails:
            rec.fail(key, {"seed_str": s, "tier": tier}, detail + " | content=%r" % case["content"][:1200])
        if rec.want_sample() and 40 < len(case["content"]) < 400:
            rec.sample({"content": case["content"], "colorspaces": case["cs"]})


def replay(case: Dict[str, Any]) -> List[Tuple[str, str]]:
    return compare(gen_case(case["seed_str"], case.get("tier", "quick")), None)
