"""C02 — cross-reference resolution: newest definition wins in every physical form.

History model: revisions r0..rk, each a define/override set; every written value
embeds a unique (revision, objid) marker so that a read identifies the write it
observed.  Each history is rendered in several physical forms (classic table /
cross-reference stream / hybrid per revision, objects direct or in object
streams) and opened with caching on/off and several BUFSIZ values.

Oracle: a sequential map objid -> latest value; getobj(n) must equal it,
undefined n must raise PDFObjectNotFound, the union of get_objids() must be the
defined set (+ the container objects of that rendering), catalog/info must be
the newest revision's; all renderings of one history must agree.
Fallback family: single-revision classic files with a damaged startxref or
cross-reference table must still yield every object and the same text.
"""
from __future__ import annotations

import io
import random
from typing import Any, Dict, List, Optional, Set, Tuple

from vf.checks.c01 import compare
from vf.common import chash
from vf.gen.pdfw import HexStr, Name, Real, Ref, Stream, Doc, page_doc, font_type1
from vf.gen.xrefw import render_history

ID = "C02"
LEVEL = "exploration"
DESIGN_REF = "DESIGN.md#C02"
TECHNIQUE = "runtime monitoring: history + executable model (sequential map objid->latest value) checked against getobj/get_objids/catalog over metamorphic physical renderings"
LEVEL_TEXT = (
    'Exploration with an executable specification: random revision histories with unique (revision, object) markers are rendered in three physical forms each and read back under caching on/off and three buffer sizes; getobj, the union of get_objids, catalog and info are compared with a 20-line sequential map, and damaged single-revision files with the body scan. Right level because the space (histories x physical forms x EOL styles x widths) is unbounded and the oracle is cheap and exact; unique markers make every read identify the write it observed.'
)
RULE = (
    "random histories (1..5 revisions quick, ..9 thorough; sparse object numbers; overrides; root/info redefinition) x "
    "physical form per revision {table, xref stream (W variants, /Index multi-range or absent, Flate / PNG predictor rows of every filter type under /Predictor 10-15 / raw), hybrid} x "
    "object-stream packing x EOL styles x caching {on,off} x BUFSIZ {16,61,4096}; each history rendered in 3 forms "
    "(metamorphic group). distinct = distinct rendered files; non-trivial = >=2 revisions or a non-table form or an "
    "object stream. Fallback family: single-revision classic files (objects at line starts, ASCIIHex content) with damaged "
    "startxref / table (incl. offsets of integer tokens near the end of the file), the value following the obj keyword after LF, CR LF, space, tab or directly. "
    "tools/dumppdf.py -a (dumpallobjs) over a third of the renderings must list exactly the in-use objects; a twelfth of the objects have a value that is false in Python. Not generated: deletions (free entries for defined objects), generation numbers > 0."
)
ASSUMPTIONS = [
    "the history renderer vf/gen/xrefw.py writes ISO 32000-1 7.5.4-7.5.8 conformant files",
    "value comparison is C01's type-exact structural equality",
    "object numbers of cross-reference streams and object streams count as defined objects of the rendering that contains them",
]
SHARD_TIMEOUT = {"quick": 600, "thorough": 5400}
BUFS = [16, 61, 4096]


def minimums(tier: str) -> Dict[str, int]:
    if tier == "quick":
        return {"evaluations": 3000, "distinct": 1000, "getobj_compared": 50000, "absent_lookups": 5000, "fallback_docs": 150,
                "form:table": 300, "form:stream": 300, "form:hybrid": 300, "packed_objects_read": 2000, "tail_sweep_opens": 3000,
                "dumpall_docs": 400, "dumpall_falsy_objects": 200}
    return {"evaluations": 60000, "distinct": 20000, "getobj_compared": 1000000, "absent_lookups": 100000, "fallback_docs": 3000,
            "form:table": 6000, "form:stream": 6000, "form:hybrid": 6000, "packed_objects_read": 40000, "tail_sweep_opens": 60000,
            "dumpall_docs": 8000, "dumpall_falsy_objects": 4000}


def shards(tier: str, seed: int) -> List[Dict[str, Any]]:
    n = 32 if tier == "quick" else 96
    per = 14 if tier == "quick" else 110
    out = [{"kind": "hist", "sub": i, "n": per} for i in range(n)]
    nf = 8 if tier == "quick" else 32
    out += [{"kind": "fallback", "sub": i, "n": 24 if tier == "quick" else 110} for i in range(nf)]
    return out


# --------------------------------------------------------------------------
def gen_value(rng: random.Random, rev: int, n: int, kind: Optional[str] = None) -> Any:
    """A value embedding the unique marker (rev, objid)."""
    mark = b"r%d-o%d" % (rev, n)
    k = kind or rng.choice(["dict", "dict", "array", "string", "stream", "int", "name", "nested", "ref", "hexstr", "dict", "falsy"] + (["null"] if rev else []))
    if k == "null":
        # an update may redefine an object as the null object (e.g. to drop a stream): the newest definition is null,
        # the older value must not come back
        return None
    if k == "falsy":
        # values that are false in Python (they cannot carry the marker): an object whose newest value is one of them is
        # still an in-use object with that value
        return rng.choice([0, Real("0.0"), [], b"", HexStr(b""), {}, False, Real("-0.0")])
    if k == "dict":
        return {"Mark": mark, "Rev": rev, "Obj": n, "Next": Ref(rng.randint(1, 60))}
    if k == "array":
        return [mark, rev, n, Real("%d.5" % rev), Name(b"A" + mark), None, True]
    if k == "string":
        return mark + bytes(rng.randrange(256) for _ in range(rng.randint(0, 8)))
    if k == "hexstr":
        return HexStr(mark)
    if k == "int":
        return rev * 100000 + n
    if k == "name":
        return Name(b"N-" + mark)
    if k == "ref":  # a reference as array member (a bare top-level reference is of debatable conformance)
        return [Ref(rev * 1000 + n + 1), mark]
    if k == "nested":
        return {"Mark": mark, "Kids": [{"A": [1, 2, {"B": mark}]}, [Ref(n)], b"(x)"], "E": {}, "L": []}
    if k == "stream":
        return Stream({"Mark": mark, "Rev": rev}, b"stream-data-" + mark + b"\nendstream-not\n" * rng.randint(0, 1))
    raise ValueError(k)


def gen_history(rng: random.Random, tier: str) -> Tuple[List[Dict[str, Any]], Set[int]]:
    nrev = rng.choice([1, 1, 2, 2, 3, 4, 5] if tier == "quick" else [1, 2, 3, 4, 5, 6, 7, 9])
    universe = rng.sample(range(1, 70), rng.randint(4, 30 if tier == "quick" else 60))
    never = set(range(1, 72)) - set(universe)
    hist: List[Dict[str, Any]] = []
    defined: Set[int] = set()
    root = info = None
    for r in range(nrev):
        if r == 0:
            ids = set(rng.sample(universe, max(3, len(universe) * 2 // 3)))
        else:
            k = rng.randint(1, max(1, len(universe) // 3))
            ids = set(rng.sample(universe, k))
        objs: Dict[int, Any] = {n: gen_value(rng, r, n) for n in ids}
        # catalog / info: keep, override the same object, or move to another object number
        if root is None or rng.random() < 0.4:
            root = rng.choice(sorted(ids))
        if rng.random() < 0.6 and (info is None or rng.random() < 0.4):
            cand = [n for n in sorted(ids) if n != root]
            if cand:
                info = rng.choice(cand)
        if info == root:
            info = None
        # whenever this revision (re)defines the current root / info object it writes a proper dictionary
        if root in objs or root not in defined:
            objs[root] = {"Type": Name("Catalog"), "Mark": b"root-r%d-o%d" % (r, root), "Pages": Ref(rng.randint(1, 60))}
        if info is not None and (info in objs or info not in defined):
            objs[info] = {"Title": b"info-r%d-o%d" % (r, info), "Rev": r}
        defined |= set(objs)
        hist.append({"objs": objs, "root": root, "info": info})
    return hist, never


def model(hist: List[Dict[str, Any]]) -> Dict[int, Tuple[int, Any]]:
    """The sequential specification: objid -> (revision, value) of the most recent definition."""
    m: Dict[int, Tuple[int, Any]] = {}
    for r, rev in enumerate(hist):
        for n, v in rev["objs"].items():
            m[n] = (r, v)
    return m


def cmp_value(exp: Any, act: Any) -> Optional[str]:
    from pdfminer.pdftypes import PDFStream

    if isinstance(exp, Stream):
        if not isinstance(act, PDFStream):
            return "expected stream, got %r" % (act,)
        d = {Name(k) if isinstance(k, str) else k: v for k, v in exp.d.items()}
        attrs = {k: v for k, v in act.attrs.items() if k not in ("Length",)}
        m = compare(d, attrs)
        if m:
            return "stream dict: " + m
        try:
            data = act.get_data()
        except Exception as e:  # noqa: BLE001
            return "stream data raised %s: %s" % (type(e).__name__, e)
        if data != exp.data:
            return "stream data: expected %r, got %r" % (exp.data[:60], data[:60])
        return None
    if isinstance(exp, dict):
        exp = {Name(k) if isinstance(k, str) else k: v for k, v in exp.items()}
    return compare(_names(exp), act)


def _names(v: Any) -> Any:
    if isinstance(v, dict):
        return {(Name(k) if isinstance(k, str) else k): _names(x) for k, x in v.items()}
    if isinstance(v, list):
        return [_names(x) for x in v]
    return v


def observe(data: bytes, caching: bool, bufsiz: int, ids: List[int], absent: List[int]):
    """Open the document and record everything the property talks about."""
    from pdfminer.pdfdocument import PDFDocument
    from pdfminer.pdfexceptions import PDFObjectNotFound
    from pdfminer.pdfparser import PDFParser
    from pdfminer.psparser import PSBaseParser

    PSBaseParser.BUFSIZ = bufsiz
    res: Dict[str, Any] = {"objs": {}, "absent": {}, "open": None}
    try:
        try:
            doc = PDFDocument(PDFParser(io.BytesIO(data)), caching=caching)
        except Exception as e:  # noqa: BLE001
            res["open"] = "%s: %s" % (type(e).__name__, e)
            return res
        order = list(ids)
        for n in order:
            try:
                res["objs"][n] = ("ok", doc.getobj(n))
            except Exception as e:  # noqa: BLE001
                res["objs"][n] = ("exc", "%s: %s" % (type(e).__name__, e))
        # second read of a few objects: with caching the same object, without caching an equal one
        res["second"] = {}
        for n in order[:6]:
            try:
                res["second"][n] = ("ok", doc.getobj(n))
            except Exception as e:  # noqa: BLE001
                res["second"][n] = ("exc", "%s: %s" % (type(e).__name__, e))
        for n in absent:
            try:
                v = doc.getobj(n)
                res["absent"][n] = "returned %r" % (v,)
            except PDFObjectNotFound:
                res["absent"][n] = None
            except Exception as e:  # noqa: BLE001
                res["absent"][n] = "%s: %s" % (type(e).__name__, e)
        ids_seen: Set[int] = set()
        try:
            for x in doc.xrefs:
                ids_seen.update(x.get_objids())
            res["objids"] = ids_seen
        except Exception as e:  # noqa: BLE001
            res["objids"] = "%s: %s" % (type(e).__name__, e)
        res["catalog"] = doc.catalog
        res["info"] = list(doc.info)
        res["nxrefs"] = len(doc.xrefs)
        res["fallback"] = any(type(x).__name__ == "PDFXRefFallback" for x in doc.xrefs)
    finally:
        PSBaseParser.BUFSIZ = 4096
    return res


def check_rendering(rec, hist, R, label: str, cfgs) -> List[Tuple[str, str]]:
    """Run the oracle on one rendering under several (caching, bufsiz) configs."""
    fails: List[Tuple[str, str]] = []
    m = model(hist)
    ids = sorted(m)
    universe = set(m) | R.containers
    absent = [n for n in (0, 71, 72, 999, 5000, max(universe) + 1) if n not in universe and n != 0]
    absent += [n for n in range(1, 71) if n not in universe][:6]
    root = hist[-1]["root"]
    info = hist[-1]["info"]
    for caching, bs in cfgs:
        res = observe(R.data, caching, bs, ids, absent)
        ctx = "%s caching=%s BUFSIZ=%d forms=%s" % (label, caching, bs, "+".join(R.forms))
        if res["open"] is not None:
            fails.append(("open_failed:" + res["open"].split(":")[0], ctx + ": " + res["open"]))
            continue
        if res["fallback"]:
            fails.append(("unexpected_fallback", ctx + ": intact file was read through the body-scanning fallback"))
        for n in ids:
            st, v = res["objs"][n]
            rev, exp = m[n]
            if st == "exc":
                msg = "raised " + v
            else:
                msg = cmp_value(exp, v)
            rec.count("getobj_compared")
            if (rev, n) in R.packed:
                rec.count("packed_objects_read")
            if msg:
                where = "objstm" if (rev, n) in R.packed else "direct"
                fails.append(("getobj_wrong:%s:%s" % (R.forms[rev], where), "%s: object %d (latest rev %d): %s" % (ctx, n, rev, msg)))
        for n, (st, v) in res["second"].items():
            st0, v0 = res["objs"][n]
            if st != st0:
                fails.append(("second_read_differs", "%s: object %d: %r then %r" % (ctx, n, res["objs"][n], (st, v))))
            elif st == "ok" and _plain(v) != _plain(v0):
                fails.append(("second_read_differs", "%s: object %d read twice gives %r then %r" % (ctx, n, v0, v)))
        for n, msg in res["absent"].items():
            rec.count("absent_lookups")
            if msg is not None:
                fails.append(("absent_lookup", "%s: getobj(%d) of an undefined object: %s" % (ctx, n, msg)))
        if isinstance(res["objids"], str):
            fails.append(("objids_raised", ctx + ": " + res["objids"]))
        else:
            got = set(res["objids"]) - {0}
            if got != universe:
                forms = "+".join(sorted(set(R.forms)))
                fails.append(("objids_wrong:" + forms, "%s: get_objids union: missing %s, extra %s" % (ctx, sorted(universe - got)[:12], sorted(got - universe)[:12])))
        msg = compare(_names(m[root][1]), res["catalog"])
        if msg:
            fails.append(("catalog_wrong", "%s: catalog (object %d): %s" % (ctx, root, msg)))
        if info is not None:
            if not res["info"]:
                fails.append(("info_wrong", "%s: info missing (object %d)" % (ctx, info)))
            else:
                msg = compare(_names(m[info][1]), res["info"][0])
                if msg:
                    fails.append(("info_wrong", "%s: info[0] (object %d): %s" % (ctx, info, msg)))
        rec.case(None, False)
    return fails


_DUMPPDF: List[Any] = []


def check_dumpall(rec, hist, R, label: str) -> List[Tuple[str, str]]:
    """tools/dumppdf.py -a (dumpallobjs) lists every in-use object once: the ids it reports must be the objects of the
    model whose newest value is not null, plus the containers (object and cross-reference streams)."""
    import importlib.util
    import os
    import re

    from pdfminer.pdfdocument import PDFDocument
    from pdfminer.pdfparser import PDFParser
    from vf import REPO

    if not _DUMPPDF:
        spec = importlib.util.spec_from_file_location("vf_c02_dumppdf", os.path.join(REPO, "tools", "dumppdf.py"))
        mod = importlib.util.module_from_spec(spec)    # type: ignore[arg-type]
        spec.loader.exec_module(mod)                    # type: ignore[union-attr]
        _DUMPPDF.append(mod)
    m = model(hist)
    exp = {n for n, (_, v) in m.items() if v is not None} | set(R.containers)
    falsy = {n for n, (_, v) in m.items() if v is not None and not isinstance(v, Stream) and _is_falsy(v)}
    out = io.StringIO()
    try:
        _DUMPPDF[0].dumpallobjs(out, PDFDocument(PDFParser(io.BytesIO(R.data))))
    except Exception as e:  # noqa: BLE001
        return [("dumpall_raised:%s" % type(e).__name__, "%s forms=%s: dumppdf -a: %s: %s" % (label, "+".join(R.forms), type(e).__name__, e))]
    got = [int(x) for x in re.findall(r'<object id="(\d+)">', out.getvalue())]
    rec.count("dumpall_docs")
    rec.count("dumpall_falsy_objects", len(falsy))
    fails: List[Tuple[str, str]] = []
    if len(got) != len(set(got)):
        fails.append(("dumpall_duplicates", "%s forms=%s: dumppdf -a lists an object twice: %s" % (label, "+".join(R.forms), sorted(n for n in set(got) if got.count(n) > 1)[:8])))
    if set(got) != exp:
        missing = sorted(exp - set(got))
        kind = "falsy_value" if missing and set(missing) <= falsy else "ids"
        fails.append(("dumpall_wrong:" + kind, "%s forms=%s: dumppdf -a: missing %s, extra %s" % (label, "+".join(R.forms), missing[:12], sorted(set(got) - exp)[:12])))
    return fails


def _is_falsy(v: Any) -> bool:
    if isinstance(v, Real):
        return float(v.text) == 0.0
    if isinstance(v, (Name, Ref)):
        return False
    try:
        return not v
    except Exception:  # noqa: BLE001
        return False


def tail_probe(hist, R, bufsiz: int) -> Optional[Tuple[str, str]]:
    """Open the rendering with one buffer size and check that the newest revision was found (catalog + one object)."""
    m = model(hist)
    root = hist[-1]["root"]
    newest = sorted(hist[-1]["objs"])[:2] + [root]
    res = observe(R.data, True, bufsiz, newest, [])
    if res["open"] is not None:
        return ("open_failed", res["open"])
    if res["fallback"]:
        return ("fallback", "intact file was read through the body-scanning fallback")
    msg = compare(_names(m[root][1]), res["catalog"])
    if msg:
        return ("catalog", "catalog: " + msg)
    for n in newest:
        st, v = res["objs"][n]
        msg = ("raised " + v) if st == "exc" else cmp_value(m[n][1], v)
        if msg:
            return ("getobj", "object %d: %s" % (n, msg))
    return None


def run_history(rec, rng: random.Random, tier: str, hseed: str) -> None:
    hrng = random.Random(hseed)
    hist, never = gen_history(hrng, tier)
    nrev = len(hist)
    group = []
    for k in range(3):
        frng = random.Random(hseed + "/form%d" % k)
        if k == 0:
            forms = ["table"] * nrev
        elif k == 1:
            forms = ["stream"] * nrev
        else:
            forms = [frng.choice(["table", "stream", "hybrid"]) for _ in range(nrev)]
            if "hybrid" not in forms and frng.random() < 0.6:
                forms[frng.randrange(nrev)] = "hybrid"
        R = render_history(hist, frng, forms=forms, never_defined=never)
        group.append(R)
    cfgs_all = [(c, b) for c in (True, False) for b in BUFS]
    for k, R in enumerate(group):
        cfgs = [cfgs_all[i] for i in sorted(rng.sample(range(len(cfgs_all)), 4))]
        if rng.random() < 0.12:
            # tail sweep: with every buffer size 1..48 the backward reader's chunk boundaries fall on every byte of
            # the startxref / offset / %%EOF tail in turn
            for bs in range(1, 49):
                r = tail_probe(hist, R, bs)
                rec.count("tail_sweep_opens")
                if r:
                    rec.fail("tail_bufsize:" + r[0], {"hseed": hseed, "tier": tier, "form": k, "bufsiz": bs}, "form%d BUFSIZ=%d forms=%s: %s" % (k, bs, "+".join(R.forms), r[1]))
                    break
        fails = check_rendering(rec, hist, R, "form%d" % k, cfgs)
        if k == 2 or len(hist) % 3 == k:
            fails += check_dumpall(rec, hist, R, "form%d" % k)
        for f in R.forms:
            rec.count("form:" + f)
        for ft in R.features:
            rec.see("features", ft)
        nontriv = nrev >= 2 or any(f != "table" for f in R.forms) or "objstm" in R.features
        rec.case(chash(R.data), nontriv)
        rec.count("revisions_%d" % min(nrev, 9))
        for key, detail in fails:
            rec.fail(key, {"hseed": hseed, "tier": tier, "form": k}, detail)
        if rec.want_sample() and nrev >= 2 and len(R.data) < 6000 and k == 2:
            rec.sample({"revisions": nrev, "forms": R.forms, "features": sorted(R.features), "bytes": len(R.data),
                        "defined": sorted(model(hist)), "file_tail": R.data[-90:]})


# --------------------------------------------------------------------------
# fallback family
# --------------------------------------------------------------------------
def build_fallback_doc(rng: random.Random) -> Tuple[bytes, Dict[int, int], int, int, str]:
    """Single-revision classic file; objects start at line starts; content is ASCIIHex armoured."""
    nobj = rng.randint(0, 8)
    words = ["Alpha", "beta", "GAMMA", "delta42", "x", "Hello World", "fallback", "Zed"]
    lines = [rng.choice(words) for _ in range(rng.randint(1, 4))]
    content = b"BT /F1 12 Tf 72 700 Td 14 TL " + b" ".join(b"(" + w.encode() + b") Tj T*" for w in lines) + b" ET"
    # ISO 32000-1 7.3.8.1: an end-of-line marker before `endstream` is recommended, not required
    st = Stream({"Filter": Name("ASCIIHexDecode")}, content.hex().encode() + b">", tail=rng.choice([b"\n", b"\n", b"", b"\r\n"]))
    doc = page_doc([{"content": st, "resources": {"Font": {"F1": font_type1()}}}])
    extra: Dict[int, Any] = {}
    for i in range(nobj):
        r = doc.add(gen_value(rng, 0, 100 + i, rng.choice(["dict", "array", "string", "int", "name", "nested"])))
        extra[r.n] = doc.objs[r.n]
    # 7.2.2: the value may follow the `obj` keyword after any white space, or directly when it starts with a delimiter
    data = doc.build(xref="table", obj_sep=rng.choice([b"\n", b"\n", b"", b"", b" ", b"\r\n", b"\t"]))
    return data, {}, 0, 0, " ".join(lines)


KNOWN_TAGS = {
    "table_fields_garbled": "fallback_not_triggered:entry_fields_garbled",
    "table_truncated_empty": "fallback_not_triggered:empty_table",
}


def damage(data: bytes, rng: random.Random) -> Tuple[bytes, str]:
    """Damage startxref or the cross-reference table (never the body or the trailer dictionary).

    Kinds `table_fields_garbled` and `table_truncated_empty` are tagged sub-families (listed known
    findings): the table stays well-formed enough to be accepted, so pdfminer never scans the body."""
    xs = data.rindex(b"\nxref\n") + 1
    ts = data.index(b"trailer", xs)
    sx = data.rindex(b"startxref")
    kind = rng.choice(["startxref_wrong", "startxref_wrong", "startxref_missing", "startxref_number_garbled",
                       "xref_keyword_damaged", "table_structure_broken", "table_structure_broken", "table_truncated_rows",
                       "table_fields_garbled", "table_truncated_empty"])
    rows = data[xs:ts].split(b"\n")  # ['xref', '0 N', row..., '']
    if kind == "startxref_wrong":
        # also: offsets of integer tokens close to the end of the file (the reader then takes them for the header of a
        # cross-reference stream and runs into the end of the file while reading it)
        near_end = [sx + 10, data.rindex(b"/Size ") + 6, ts - 20, ts - 40, ts - 9]
        newpos = rng.choice([0, 1, 7, xs - 1, xs + 1, xs + 3, len(data), len(data) + 100, rng.randrange(len(data)), 99999999] + near_end)
        return data[:sx] + b"startxref\n%d\n%%%%EOF\n" % newpos, kind
    if kind == "startxref_missing":
        return rng.choice([data[:sx], data[:sx] + b"%%EOF\n"]), kind
    if kind == "startxref_number_garbled":
        return data[:sx] + b"startxref\n" + rng.choice([b"abc", b"-5", b"12x", b""]) + b"\n%%EOF\n", kind
    if kind == "xref_keyword_damaged":
        return data[:xs] + rng.choice([b"xrfe", b"XREF", b"xre ", b"____"]) + data[xs + 4:], kind
    if kind == "table_structure_broken":
        r = list(rows)
        how = rng.choice(["junk_line", "join_fields", "header_garbled", "split_field"])
        i = rng.randrange(2, len(r) - 1)
        if how == "junk_line":
            r.insert(i, rng.choice([b"garbage", b"@@@@ ####", b"1 2 3 4 5"]))
        elif how == "join_fields":
            r[i] = r[i].replace(b" ", b"", 1)
        elif how == "split_field":
            r[i] = r[i][:4] + b" " + r[i][4:]
        else:
            r[1] = rng.choice([b"0 x", b"zero 5", b"0", b"0 1 2"])
        return data[:xs] + b"\n".join(r) + data[ts:], kind + ":" + how
    if kind == "table_truncated_rows":
        keep = rng.randint(3, max(3, len(rows) - 2))     # keeps 'xref', the header and >= 1 row
        cut = b"\n".join(rows[:keep])
        if rng.random() < 0.5 and keep < len(rows) - 1:
            cut += b"\n" + rows[keep][: rng.randint(1, 9)]
        if keep >= len(rows) - 1:
            cut = b"\n".join(rows[: len(rows) - 2])
        return data[:xs] + cut + b"\n" + data[ts:], kind
    if kind == "table_fields_garbled":
        r = list(rows)
        for _ in range(rng.randint(1, 4)):
            i = rng.randrange(2, len(r) - 1)
            f = r[i].split(b" ")
            j = rng.randrange(3)
            g = bytearray(f[j])
            g[rng.randrange(len(g))] = rng.choice(b"xyz?!#@~qQ")
            f[j] = bytes(g)
            r[i] = b" ".join(f)
        return data[:xs] + b"\n".join(r) + data[ts:], kind
    # table_truncated_empty: every subsection is gone
    return data[:xs] + b"xref\n" + data[ts:], kind


def run_fallback(rec, rng: random.Random, fseed: str) -> Tuple[List[Tuple[str, str]], Dict[str, Any]]:
    frng = random.Random(fseed)
    data, _, _, _, _ = build_fallback_doc(frng)
    bad, kind = damage(data, frng)
    return check_fallback(rec, rng, data, bad, kind), {"data": data, "bad": bad, "kind": kind}


def check_fallback(rec, rng: random.Random, data: bytes, bad: bytes, kind: str) -> List[Tuple[str, str]]:
    from pdfminer.high_level import extract_text
    from pdfminer.pdfdocument import PDFDocument
    from pdfminer.pdfparser import PDFParser

    fails: List[Tuple[str, str]] = []
    try:
        base_text = extract_text(io.BytesIO(data))
        base_doc = PDFDocument(PDFParser(io.BytesIO(data)))
        base_ids = set()
        for x in base_doc.xrefs:
            base_ids.update(x.get_objids())
        base_ids.discard(0)
        base_vals = {n: base_doc.getobj(n) for n in sorted(base_ids)}
    except Exception as e:  # noqa: BLE001
        return [("fallback_base_failed", "undamaged document failed: %s: %s" % (type(e).__name__, e))]
    if not base_text.strip():
        return [("fallback_base_failed", "undamaged document has no text")]
    rec.count("fallback_docs")
    rec.count("damage:" + kind.split(":")[0])
    try:
        doc = PDFDocument(PDFParser(io.BytesIO(bad)))
        used = any(type(x).__name__ == "PDFXRefFallback" for x in doc.xrefs)
        rec.count("fallback_used" if used else "fallback_not_used")
        missing = []
        for n in sorted(base_ids):
            try:
                v = doc.getobj(n)
            except Exception as e:  # noqa: BLE001
                missing.append("%d: %s" % (n, type(e).__name__))
                continue
            if _plain(v) != _plain(base_vals[n]):
                missing.append("%d: differs" % n)
        text = extract_text(io.BytesIO(bad))
        if kind in KNOWN_TAGS:
            if missing or text != base_text:
                fails.append((KNOWN_TAGS[kind], "damage=%s: objects not recovered: %s; text %r (expected %r)" % (kind, missing[:8], text[:40], base_text[:40])))
        else:
            if missing:
                fails.append(("fallback_objects:" + kind, "damage=%s: objects not recovered: %s" % (kind, missing[:8])))
            if text != base_text:
                fails.append(("fallback_text:" + kind, "damage=%s: text %r != %r" % (kind, text[:80], base_text[:80])))
    except Exception as e:  # noqa: BLE001
        fails.append(("fallback_raised:%s:%s" % (kind, type(e).__name__), "damage=%s: %s: %s" % (kind, type(e).__name__, e)))
    rec.case(chash(bad), True)
    if rec.want_sample() and rng.random() < 0.1:
        rec.sample({"fallback_damage": kind, "tail": bad[-120:]})
    return fails


def _plain(v: Any) -> Any:
    from pdfminer.pdftypes import PDFObjRef, PDFStream
    from pdfminer.psparser import PSLiteral

    if isinstance(v, PDFStream):
        return ("stream", _plain(v.attrs), v.get_data())
    if isinstance(v, PDFObjRef):
        return ("ref", v.objid)
    if isinstance(v, PSLiteral):
        return ("name", v.name)
    if isinstance(v, dict):
        return {k: _plain(x) for k, x in v.items()}
    if isinstance(v, list):
        return [_plain(x) for x in v]
    return v


# --------------------------------------------------------------------------
def run_shard(spec: Dict[str, Any], rec) -> None:
    rng = random.Random("C02/%d/%s/%d" % (spec["seed"], spec["kind"], spec["sub"]))
    tier = spec["tier"]
    if spec["kind"] == "hist":
        for i in range(spec["n"]):
            run_history(rec, rng, tier, "C02/%d/h/%d/%d" % (spec["seed"], spec["sub"], i))
    else:
        for i in range(spec["n"]):
            fseed = "C02/%d/f/%d/%d" % (spec["seed"], spec["sub"], i)
            fails, case = run_fallback(rec, rng, fseed)
            for key, detail in fails:
                rec.fail(key, case, detail)


class _NullRec:
    def count(self, *a, **k):
        pass

    def case(self, *a, **k):
        pass

    def see(self, *a, **k):
        pass

    def want_sample(self):
        return False

    def sample(self, *a):
        pass


def replay(case: Dict[str, Any]) -> List[Tuple[str, str]]:
    rec = _NullRec()
    if "bad" in case:
        return check_fallback(rec, random.Random(0), case["data"], case["bad"], case["kind"])
    hseed = case["hseed"]
    tier = case.get("tier", "quick")
    hist, never = gen_history(random.Random(hseed), tier)
    nrev = len(hist)
    out: List[Tuple[str, str]] = []
    for k in range(3):
        frng = random.Random(hseed + "/form%d" % k)
        if k == 0:
            forms = ["table"] * nrev
        elif k == 1:
            forms = ["stream"] * nrev
        else:
            forms = [frng.choice(["table", "stream", "hybrid"]) for _ in range(nrev)]
            if "hybrid" not in forms and frng.random() < 0.6:
                forms[frng.randrange(nrev)] = "hybrid"
        R = render_history(hist, frng, forms=forms, never_defined=never)
        if k == case.get("form", k):
            if "bufsiz" in case:
                r = tail_probe(hist, R, case["bufsiz"])
                if r:
                    out.append(("tail_bufsize:" + r[0], r[1]))
            out += check_rendering(rec, hist, R, "form%d" % k, [(c, b) for c in (True, False) for b in BUFS])
    return out
