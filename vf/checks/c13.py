"""C13 — damaged input: errors stay in the library's family, work stays bounded.

Fault enumeration over a family of feature-covering seed documents
(vf.gen.seeds13, object models): every dictionary entry / array element x every
fault kind (typed replacements, self / missing / cyclic references, references
to objects of other types, to the ancestors of the damaged object and to other
existing streams / dictionaries, key removal, key duplication) -- the same for every
entry of the trailer and of the encryption dictionary, which the builder writes;
every stream x payload faults (empty, truncations, bit flips, garbage, wrong
/Length; for small payloads of the pure-Python decoders every bit of the first
8 bytes and one bit of each later byte); every token of every unfiltered text stream (page contents, forms,
glyph procedures, ToUnicode CMaps) x {delete, duplicate, replace by 0 / name /
string / [] / <<>>}; and file-level truncation (every offset for two seeds,
strided for the rest) and damaged startxref / xref rows.  Entry points: extract_text, list(extract_pages),
extract_text_to_fp(xml) (+ outline / page-label / destination traversal for
the navigation seed).

Monitor: outcome class per run — returned / raised inside the PSException family /
AssertionError (tolerated: the repository's own fuzz contract accepts it) /
LEAKED any other exception / RecursionError / MemoryError / step budget exceeded
(sys.monitoring LINE events; budget = 20 x the undamaged seed's cost + 200 000).
"""
from __future__ import annotations

import copy
import io
import os
import random
import re
import shutil
import sys
import tempfile
from typing import Any, Dict, Iterator, List, Optional, Tuple

from vf.common import StepBudgetExceeded, chash, last_steps, run_with_budget
from vf.gen.pdfw import Doc, Name, Ref, Stream
from vf.gen.seeds13 import SEEDS, build

ID = "C13"
LEVEL = "fault_enumeration"
DESIGN_REF = "DESIGN.md#C13"
TECHNIQUE = "runtime monitoring under systematic fault injection: outcome-class monitor + sys.monitoring step budget on every (seed, site, fault kind, entry point)"
LEVEL_TEXT = (
    'Fault enumeration: every dictionary entry / array element (objects, trailer, encryption dictionary) / stream / content-stream token / file offset of thirteen feature-covering seed documents x every fault kind x every entry point is executed under an outcome monitor and a line-count budget (the quick tier is a 1/12 stride sample of the same enumeration, phase chosen by the seed). Right level: single structural faults of a fixed seed family are a finite space that can be enumerated completely; what is not covered is multi-fault damage and other seeds.'
)
RULE = (
    "deterministic enumeration: seeds x fault sites (every dict entry / array element of every object, of the trailer and of the "
    "encryption dictionary, every stream, every token of every unfiltered text stream, file "
    "offsets) x fault kinds (null true 0 -1 2^31 1.5 name string [] [0] {} new-stream self-ref missing-ref 2-cycle 3-cycle "
    "refs to catalog/page/font/content, refs to the 6 nearest ancestors of the damaged object in the reference graph and to 3 "
    "type-diverse existing streams and 3 existing dictionaries, remove key, duplicate key; stream: empty, cut 1/4 1/2 3/4 -1, "
    "8 bit flips, garbage, Length 0/short/long; small LZW/RunLength/ASCII85/ASCIIHex/CCITT payloads: every bit of the first 8 "
    "bytes + one bit of every later byte; token: delete, duplicate, replace by 0 /Name (string) [] <<>>; file: truncation, "
    "startxref/xref-row damage) x entry points {extract_text, extract_pages (run with caching=False: every object fetch re-parses), "
    "extract_text_to_fp(xml, strip_control=True)[, nav]}. quick = stride-12 sample of the same enumeration (offset chosen by the seed), except that "
    "the header-bit flips are all run and links redirected to an ancestor are sampled with stride 3. "
    "distinct = distinct damaged files; non-trivial = every case (each differs from its seed by exactly one fault)."
)
ASSUMPTIONS = [
    "the documented exception family is pdfminer.psexceptions.PSException and its subclasses (PDFException etc.)",
    "AssertionError is counted separately and tolerated, as in fuzzing/extract_text_fuzzer.py",
    "work is bounded when executed pdfminer source lines <= 20 x the undamaged seed's count for the same entry point + 200 000",
    "RLIMIT_AS 4 GiB turns runaway allocation into MemoryError",
    "ImportError carrying pdfminer.image.PIL_ERROR_MESSAGE (optional Pillow dependency absent from the test environment) is counted "
    "separately (outcome:optional_dependency) and is not a leak: it does not depend on the damage",
]
SHARD_TIMEOUT = {"quick": 900, "thorough": 7200}
ENTRIES = ["extract_text", "extract_pages", "xml"]


def minimums(tier: str) -> Dict[str, int]:
    # The enumeration is deterministic. thorough: 35 989 damaged files / 128 712 runs; floors at ~88 % (room for changes of
    # the builder's trailer / encryption dictionary). quick: a stride sample whose phase is the seed, ~3 700 files / ~11 800
    # runs; floors at ~70 % of the smallest value observed over the phases 0..11, so that every seed passes.
    if tier == "quick":
        return {"evaluations": 8100, "distinct": 2550, "scale_probes": 5, "outcome:returned": 6500, "outcome:family": 1400, "seen:seeds": 13,
                "seen:kinds": 40, "fault_family:obj": 1600, "fault_family:trailer": 90, "fault_family:stream": 38,
                "fault_family:content": 240, "fault_family:trunc": 320, "fault_family:file": 4, "fault_family:bits": 190}
    return {"evaluations": 113000, "distinct": 31500, "scale_probes": 5, "outcome:returned": 92000, "outcome:family": 20000, "seen:seeds": 13,
            "seen:kinds": 60, "fault_family:obj": 24500, "fault_family:trailer": 1580, "fault_family:stream": 610,
            "fault_family:content": 3700, "fault_family:trunc": 5000, "fault_family:file": 100, "fault_family:bits": 430}


# --------------------------------------------------------------------------
# sites and faults on the object model
# --------------------------------------------------------------------------
def walk_sites(v: Any, path: Tuple[Any, ...]) -> Iterator[Tuple[Any, ...]]:
    if isinstance(v, Stream):
        yield from walk_sites(v.d, path + (("sd",),))
    elif isinstance(v, dict):
        for k in list(v):
            p = path + (("k", k if isinstance(k, str) else k.b.decode("latin-1")),)
            yield p
            yield from walk_sites(v[k], p)
    elif isinstance(v, list):
        for i in range(len(v)):
            p = path + (("i", i),)
            yield p
            yield from walk_sites(v[i], p)


def all_sites(doc: Doc) -> List[Tuple[Any, ...]]:
    out: List[Tuple[Any, ...]] = []
    for n in sorted(doc.objs):
        out.extend(walk_sites(doc.objs[n], (n,)))
    return out


def stream_ids(doc: Doc) -> List[int]:
    return [n for n in sorted(doc.objs) if isinstance(doc.objs[n], Stream)]


def _container(doc: Doc, path: Tuple[Any, ...]) -> Tuple[Any, Any]:
    """-> (parent container, key/index) of the site."""
    cur: Any = doc.objs[path[0]]
    for step in path[1:-1]:
        if step[0] == "sd":
            cur = cur.d
        elif step[0] == "k":
            cur = cur[_key(cur, step[1])]
        else:
            cur = cur[step[1]]
    last = path[-1]
    if last[0] == "k":
        return cur, _key(cur, last[1])
    return cur, last[1]


def _key(d: Dict[Any, Any], name: str) -> Any:
    if name in d:
        return name
    for k in d:
        if isinstance(k, Name) and k.b.decode("latin-1") == name:
            return k
    raise KeyError(name)


VALUE_KINDS = ["null", "true", "zero", "neg1", "big", "real", "name", "string", "empty_array", "array1", "empty_dict", "new_stream",
               "ref_self", "ref_missing", "cycle2", "cycle3", "ref_catalog", "ref_page", "ref_font", "ref_content",
               # references to OTHER EXISTING objects of the document: the nearest ancestors of the damaged object in the
               # reference graph (closes a cycle through existing objects: form -> outer form, Kids -> ancestor, First ->
               # outline root ...) and a type-diverse selection of existing streams / dictionaries
               "ref_anc0", "ref_anc1", "ref_anc2", "ref_anc3", "ref_anc4", "ref_anc5",
               "ref_stm0", "ref_stm1", "ref_stm2", "ref_dic0", "ref_dic1", "ref_dic2",
               # EXTREME values (tagged family, keys "extreme:<kind>:..."): an array nested deeper than the interpreter's
               # recursion limit, an integer and a real of 400 digits, 2**63
               "x_deep", "x_hugeint", "x_hugereal", "x_two63"]
EXTREME_KINDS = ("x_deep", "x_hugeint", "x_hugereal", "x_two63")
STRUCT_KINDS = ["remove", "duplicate"]
STREAM_KINDS = ["s_empty", "s_cut14", "s_cut12", "s_cut34", "s_cut1", "s_flip0", "s_flip1", "s_flip2", "s_flip3", "s_flip4", "s_flip5",
                "s_flip6", "s_flip7", "s_garbage", "s_len0", "s_lenshort", "s_lenlong",
                # the STORED payload (ciphertext in an encrypted document) cut short by a few bytes: the last cipher block
                # becomes partial
                "s_lencut1", "s_lencut5", "s_lencut8", "s_lencut15", "s_lencut16", "s_lencut17"]

# token-level faults inside unfiltered text streams (page contents, form XObjects, Type3 glyph procedures, ToUnicode CMaps):
# every token x {delete, duplicate, replace by 0 / name / string / empty array / empty dictionary}: operators that lose an
# operand, get one too many or one of another type; operators that disappear or run twice
# c_hexbig / c_hexzero / c_bigint: extreme values of the right type (a code of all ones / zeros, a number of 400 digits)
CONTENT_KINDS = ["c_del", "c_dup", "c_zero", "c_name", "c_string", "c_array", "c_dict", "c_hexbig", "c_hexzero", "c_bigint"]
_TOKEN = re.compile(rb"\((?:\\.|[^()\\])*\)|<<|>>|<[0-9A-Fa-f\s]*>|[\[\]{}]|/[^\s/\[\](){}<>%]*|[^\s/\[\](){}<>%]+")
_TEXT_BYTES = frozenset(range(32, 127)) | {9, 10, 12, 13}


def text_stream_ids(doc: Doc) -> List[int]:
    """Streams whose payload is stored unfiltered and is text (so that a token of it can be addressed in the model)."""
    out = []
    for n in stream_ids(doc):
        st = doc.objs[n]
        if "Filter" in st.d or st.d.get("Type") == Name("Metadata") or not st.data:
            continue
        if all(b in _TEXT_BYTES for b in st.data):
            out.append(n)
    return out


def content_tokens(data: bytes) -> List[Tuple[int, int]]:
    return [m.span() for m in _TOKEN.finditer(data)]


def apply_content_fault(doc: Doc, n: int, ti: int, kind: str) -> Optional[Doc]:
    d2 = copy.deepcopy(doc)
    st = d2.objs[n]
    a, b = content_tokens(st.data)[ti]
    tok = st.data[a:b]
    rep = {"c_del": b"", "c_dup": tok + b" " + tok, "c_zero": b"0", "c_name": b"/Xyz", "c_string": b"(abc)", "c_array": b"[ ]",
           "c_hexbig": b"<FFFFFFFF>", "c_hexzero": b"<00000000>", "c_bigint": b"9" * 400,
           "c_dict": b"<< >>"}[kind]
    if rep == tok:
        return None
    st.data = st.data[:a] + rep + st.data[b:]
    return d2


def _refs_in(v: Any) -> Iterator[int]:
    if isinstance(v, Ref):
        yield v.n
    elif isinstance(v, Stream):
        yield from _refs_in(v.d)
    elif isinstance(v, dict):
        for x in v.values():
            yield from _refs_in(x)
    elif isinstance(v, list):
        for x in v:
            yield from _refs_in(x)


def ancestors(doc: Doc, objid: int, cap: int = 6) -> List[int]:
    """Objects from which `objid` is reachable, nearest first (breadth-first over reversed references, ties by number)."""
    rev: Dict[int, List[int]] = {}
    for n in sorted(doc.objs):
        for m in _refs_in(doc.objs[n]):
            rev.setdefault(m, []).append(n)
    seen = {objid}
    order: List[int] = []
    frontier = [objid]
    while frontier and len(order) < cap:
        nxt: List[int] = []
        for x in frontier:
            for a in sorted(set(rev.get(x, ()))):
                if a not in seen:
                    seen.add(a)
                    nxt.append(a)
        order.extend(sorted(nxt))
        frontier = sorted(nxt)
    return order[:cap]


def diverse(doc: Doc, streams: bool, cap: int = 3) -> List[int]:
    """Existing stream (or dictionary) objects, round-robin over their (Type, Subtype) signatures, in object order."""
    groups: Dict[Any, List[int]] = {}
    for n in sorted(doc.objs):
        v = doc.objs[n]
        if isinstance(v, Stream) != streams or not isinstance(v, (Stream, dict)):
            continue
        d = v.d if isinstance(v, Stream) else v
        sig = (repr(d.get("Type")), repr(d.get("Subtype")))
        groups.setdefault(sig, []).append(n)
    out: List[int] = []
    i = 0
    while len(out) < cap and any(len(g) > i for g in groups.values()):
        for g in groups.values():
            if len(g) > i and len(out) < cap:
                out.append(g[i])
        i += 1
    return out


_FRAGILE_FILTERS = {"LZWDecode", "LZW", "RunLengthDecode", "RL", "ASCII85Decode", "A85", "ASCIIHexDecode", "AHx", "CCITTFaxDecode", "CCF"}


def bit_sites(doc: Doc) -> List[Tuple[int, int, int]]:
    """(stream, byte, bit) for small payloads that pass through a decoder written in Python (not zlib): every bit of the
    first 8 bytes, one bit (position = byte index mod 8) of every later byte."""
    out: List[Tuple[int, int, int]] = []
    for n in stream_ids(doc):
        st = doc.objs[n]
        f = st.d.get("Filter")
        names = [x.b.decode("latin-1") for x in (f if isinstance(f, list) else [f]) if isinstance(x, Name)]
        if not (set(names) & _FRAGILE_FILTERS) or not 0 < len(st.data) <= 256:
            continue
        for byte in range(len(st.data)):
            for bit in (range(8) if byte < 8 else [byte % 8]):
                out.append((n, byte, bit))
    return out


def landmark(doc: Doc, what: str) -> Optional[int]:
    for n in sorted(doc.objs):
        v = doc.objs[n]
        d = v.d if isinstance(v, Stream) else v
        if not isinstance(d, dict):
            continue
        t = d.get("Type")
        if what == "catalog" and t == Name("Catalog"):
            return n
        if what == "page" and t == Name("Page"):
            return n
        if what == "font" and t == Name("Font"):
            return n
        if what == "content" and isinstance(v, Stream) and t is None and "Subtype" not in d:
            return n
    return None


def apply_fault(doc: Doc, path: Tuple[Any, ...], kind: str) -> Optional[Doc]:
    """Return a damaged deep copy (None if the fault does not apply at this site)."""
    d2 = copy.deepcopy(doc)
    parent, key = _container(d2, path)
    return d2 if _mutate(d2, parent, key, kind, path[0]) else None


def _mutate(d2: Doc, parent: Any, key: Any, kind: str, objid: Optional[int]) -> bool:
    """Apply one fault kind to parent[key] in place (helper objects go into d2.objs); False if it does not apply."""
    nxt = max(d2.objs) + 1
    if kind == "remove":
        if isinstance(parent, list):
            del parent[key]
        else:
            del parent[key]
        return True
    if kind == "duplicate":
        if isinstance(parent, list):
            parent.insert(key, parent[key])
            return True
        # the same key twice, the first occurrence with another value
        items = list(parent.items())
        parent.clear()
        for k, v in items:
            if k == key:
                alt = Name(k) if isinstance(k, str) else k.b.decode("latin-1")
                parent[alt] = 0 if not isinstance(v, int) else Name("Dup")
            parent[k] = v
        return True
    if kind == "null":
        v: Any = None
    elif kind == "true":
        v = True
    elif kind == "zero":
        v = 0
    elif kind == "neg1":
        v = -1
    elif kind == "x_deep":
        from vf.gen.pdfw import Raw

        v = Raw(b"[" * 1500 + b"7" + b"]" * 1500)
    elif kind == "x_hugeint":
        v = 10 ** 400 + 7
    elif kind == "x_hugereal":
        from vf.gen.pdfw import Real

        v = Real("9" * 400 + ".5")
    elif kind == "x_two63":
        v = 2 ** 63
    elif kind == "big":
        v = 2 ** 31
    elif kind == "real":
        v = 1.5
    elif kind == "name":
        v = Name("Xyz")
    elif kind == "string":
        v = b"abc"
    elif kind == "empty_array":
        v = []
    elif kind == "array1":
        v = [0]
    elif kind == "empty_dict":
        v = {}
    elif kind == "new_stream":
        d2.objs[nxt] = Stream({}, b"0 0 m")
        v = Ref(nxt)
    elif kind == "ref_self":
        if objid is None:
            return False
        v = Ref(objid)
    elif kind == "ref_missing":
        v = Ref(nxt + 50)
    elif kind == "cycle2":
        d2.objs[nxt] = Ref(nxt + 1)
        d2.objs[nxt + 1] = Ref(nxt)
        v = Ref(nxt)
    elif kind == "cycle3":
        d2.objs[nxt] = [Ref(nxt + 1)]
        d2.objs[nxt + 1] = {"A": Ref(nxt + 2), "Kids": [Ref(nxt)], "Next": Ref(nxt), "First": Ref(nxt), "Last": Ref(nxt), "Parent": Ref(nxt)}
        d2.objs[nxt + 2] = Ref(nxt)
        v = Ref(nxt)
    elif kind.startswith("ref_anc"):
        if objid is None:
            return False
        anc = ancestors(d2, objid)
        i = int(kind[7:])
        if i >= len(anc):
            return False
        v = Ref(anc[i])
    elif kind.startswith("ref_stm") or kind.startswith("ref_dic"):
        pick = diverse(d2, kind.startswith("ref_stm"))
        i = int(kind[7:])
        if i >= len(pick) or pick[i] == objid:
            return False
        v = Ref(pick[i])
    elif kind.startswith("ref_"):
        lm = landmark(d2, kind[4:])
        if lm is None:
            return False
        v = Ref(lm)
    else:
        raise ValueError(kind)
    cur = parent[key]
    if type(cur) is type(v) and cur == v:
        return False     # not a change
    parent[key] = v
    return True


# --------------------------------------------------------------------------
# the trailer dictionary and the encryption dictionary (written by the builder, not part of doc.objs)
# --------------------------------------------------------------------------
def _trailer_model(doc: Doc, opts: Dict[str, Any]) -> Dict[Any, Any]:
    """The trailer as it is written: doc.trailer + the encryptor's /ID and /Encrypt (the dictionary itself, not the reference)."""
    d2 = copy.deepcopy(doc)
    tm = dict(d2.trailer)
    enc = opts.get("encryptor")
    if enc is not None:
        extra = copy.deepcopy(enc).trailer_entries(d2)
        tm.update(extra)
        if isinstance(tm.get("Encrypt"), Ref):
            tm["Encrypt"] = d2.objs[tm["Encrypt"].n]
    return tm


def trailer_sites(doc: Doc, opts: Dict[str, Any]) -> List[Tuple[Any, ...]]:
    return list(walk_sites(_trailer_model(doc, opts), ("T",)))


def _descend(root: Any, steps: Tuple[Any, ...]) -> Tuple[Any, Any]:
    cur = root
    for step in steps[:-1]:
        cur = cur[_key(cur, step[1])] if step[0] == "k" else cur[step[1]]
    last = steps[-1]
    return (cur, _key(cur, last[1])) if last[0] == "k" else (cur, last[1])


def apply_trailer_fault(doc: Doc, opts: Dict[str, Any], path: Tuple[Any, ...], kind: str) -> Optional[bytes]:
    """Damaged file for a site inside the trailer / encryption dictionary (None if the fault does not apply)."""
    d2 = copy.deepcopy(doc)
    steps = path[1:]
    inner = opts.get("encryptor")
    try:
        _key(d2.trailer, steps[0][1])
        in_model = True
    except KeyError:
        in_model = False
    if in_model:
        parent, key = _descend(d2.trailer, steps)
        return build(d2, opts) if _mutate(d2, parent, key, kind, None) else None
    if inner is None:
        return None
    state = {"ok": False}

    class Wrapped:
        """the seed's encryptor with one fault applied to the entries it contributes to the trailer"""

        def string(self, *a: Any) -> Any:
            return inner.string(*a)

        def stream(self, *a: Any) -> Any:
            return inner.stream(*a)

        def trailer_entries(self, building: Doc) -> Dict[str, Any]:
            extra = inner.trailer_entries(building)
            if len(steps) == 1:
                parent, key = extra, _key(extra, steps[0][1])
            else:
                top = extra[_key(extra, steps[0][1])]
                if isinstance(top, Ref):
                    top = building.objs[top.n]
                parent, key = _descend(top, steps[1:])
            state["ok"] = _mutate(building, parent, key, kind, None)
            return extra

    o2 = dict(opts)
    o2["encryptor"] = Wrapped()
    data = build(d2, o2)
    return data if state["ok"] else None


# the dictionaries of the cross-reference stream and of the object stream are made by the writer, not by the document model:
# they are damaged through a hook of the writer (a value of another type, a key removed, arrays too short / too long /
# holding a string / holding a negative number)
CONTAINER_KEYS = {"xref": ["Size", "W", "Index", "Type", "Filter", "Root", "Length"], "objstm": ["N", "First", "Type", "Filter", "Extends", "Length"]}
CONTAINER_KINDS = ["k_null", "k_true", "k_zero", "k_neg1", "k_big", "k_real", "k_name", "k_string", "k_empty_array", "k_array1", "k_empty_dict",
                   "k_remove", "k_arr_short", "k_arr_long", "k_arr_str", "k_arr_neg"]


def apply_container_fault(doc: Doc, opts: Dict[str, Any], which: str, key: str, kind: str) -> Optional[bytes]:
    from vf.gen.pdfw import Real

    d2 = copy.deepcopy(doc)
    hit = []

    def hook(w: str, d: Dict[Any, Any]) -> None:
        if w != which:
            return
        cur = d.get(key)
        if kind == "k_remove":
            if key not in d:
                return
            d.pop(key)
        elif kind.startswith("k_arr_"):
            base = list(cur) if isinstance(cur, list) else ([0, d.get("Size", 1)] if key == "Index" else None)
            if base is None or not base:
                return
            if kind == "k_arr_short":
                base = base[:-1]
            elif kind == "k_arr_long":
                base = base + [1]
            elif kind == "k_arr_str":
                base[len(base) // 2] = b"x"
            else:
                base[0] = -1
            d[key] = base
        else:
            d[key] = {"k_null": None, "k_true": True, "k_zero": 0, "k_neg1": -1, "k_big": 2 ** 40, "k_real": Real("1.5"), "k_name": Name("Xyz"),
                      "k_string": b"str", "k_empty_array": [], "k_array1": [7], "k_empty_dict": {}}[kind]
        hit.append(1)

    d2.container_hook = hook       # type: ignore[attr-defined]
    data = build(d2, opts)
    return data if hit else None


def apply_stream_fault(doc: Doc, n: int, kind: str, rng: random.Random, opts: Optional[Dict[str, Any]] = None) -> Optional[Doc]:
    d2 = copy.deepcopy(doc)
    st = d2.objs[n]
    data = st.data
    if kind.startswith("s_lencut"):
        enc = (opts or {}).get("encryptor")
        stored = len(data)
        if enc is not None and getattr(enc, "cfm", None) in ("AESV2", "AESV3"):
            stored = 16 + (len(data) // 16 + 1) * 16     # IV + PKCS#5-padded blocks
        k = int(kind[8:])
        if stored - k < 1:
            return None
        st.d["Length"] = stored - k
        return d2
    if kind == "s_empty":
        st.data = b""
    elif kind.startswith("s_cut"):
        cut = {"s_cut14": len(data) // 4, "s_cut12": len(data) // 2, "s_cut34": len(data) * 3 // 4, "s_cut1": max(len(data) - 1, 0)}[kind]
        if cut == len(data):
            return None
        st.data = data[:cut]
    elif kind.startswith("s_flip"):
        if not data:
            return None
        i = int(kind[6:])
        pos = (len(data) * (2 * i + 1)) // 16
        b = bytearray(data)
        b[pos] ^= 1 << (i % 8)
        st.data = bytes(b)
    elif kind == "s_garbage":
        st.data = bytes(rng.randrange(256) for _ in range(max(len(data), 16)))
    elif kind == "s_len0":
        st.d["Length"] = 0
    elif kind == "s_lenshort":
        if len(data) < 2:
            return None
        st.d["Length"] = len(data) // 2
    elif kind == "s_lenlong":
        st.d["Length"] = len(data) + 37
    return d2


# --------------------------------------------------------------------------
# running one damaged file
# --------------------------------------------------------------------------
def run_entry(entry: str, data: bytes, opts: Dict[str, Any]) -> None:
    from pdfminer.high_level import extract_pages, extract_text, extract_text_to_fp

    pw = ""
    if entry == "extract_text":
        extract_text(io.BytesIO(data), password=pw)
    elif entry == "extract_pages":
        # the only entry run with caching=False: every getobj re-parses, so no object is ever seen twice by identity
        for _ in extract_pages(io.BytesIO(data), password=pw, caching=False):
            pass
    elif entry == "xml":
        out = io.BytesIO()
        od = None
        if opts.get("output_dir"):
            od = tempfile.mkdtemp(prefix="vf13-")
        try:
            extract_text_to_fp(io.BytesIO(data), out, output_type="xml", codec="utf-8", output_dir=od, password=pw, strip_control=True)
        finally:
            if od:
                shutil.rmtree(od, ignore_errors=True)
    elif entry == "nav":
        from pdfminer.pdfdocument import PDFDocument, PDFNoOutlines, PDFNoPageLabels, PDFDestinationNotFound
        from pdfminer.pdfpage import PDFPage
        from pdfminer.pdfparser import PDFParser
        import itertools

        doc = PDFDocument(PDFParser(io.BytesIO(data)))
        try:
            for lvl, title, dest, a, se in doc.get_outlines():
                pass
        except PDFNoOutlines:
            pass
        try:
            list(itertools.islice(doc.get_page_labels(), 10))
        except PDFNoPageLabels:
            pass
        for name in (b"dest-a", b"dest-b", b"dest-z", b"nope", "old-dest"):
            try:
                doc.get_dest(name)
            except PDFDestinationNotFound:
                pass
        for p in PDFPage.create_pages(doc):
            p.label
    else:
        raise ValueError(entry)


def classify(entry: str, data: bytes, opts: Dict[str, Any], budget: int) -> Tuple[str, str]:
    """-> (outcome class, key or '')"""
    from pdfminer.psexceptions import PSException

    try:
        run_with_budget(lambda: run_entry(entry, data, opts), budget)
        return "returned", ""
    except PSException:
        return "family", ""
    except AssertionError:
        return "assertion", ""
    except StepBudgetExceeded as e:
        return "step_budget", "step_budget:%s:%s" % (entry, _where(e))
    except RecursionError as e:
        return "recursion", "recursion:%s" % _where(e, recursion=True)
    except MemoryError as e:
        return "memory", "memory:%s" % _where(e)
    except ImportError as e:
        # pdfminer's own, documented report that the optional Pillow dependency (pdfminer.six[image]) is not installed in
        # this environment: a property of the test rig, raised for well-formed images of the same kind as well.
        from pdfminer.image import PIL_ERROR_MESSAGE

        if str(e) == PIL_ERROR_MESSAGE:
            return "optional_dependency", ""
        return "leak", "leak:%s:%s" % (type(e).__name__, _where(e))
    except Exception as e:  # noqa: BLE001
        return "leak", "leak:%s:%s" % (type(e).__name__, _where(e))


def family_key(kind: str, outcome: str, key: str) -> str:
    """Failures of the extreme-value kinds are keyed by mechanism (kind, outcome class, exception type), not by the
    function that happened to trip: one defect class, many sites."""
    if not key or kind not in EXTREME_KINDS:
        return key
    parts = key.split(":")
    return "extreme:%s:%s" % (kind, ":".join(parts[:2]) if outcome == "leak" else parts[0])


def _where(e: BaseException, recursion: bool = False) -> str:
    """module.function of the innermost pdfminer frame (for recursion: the most frequent function)."""
    tb = e.__traceback__
    frames: List[str] = []
    while tb is not None:
        co = tb.tb_frame.f_code
        if os.sep + "pdfminer" + os.sep in co.co_filename:
            frames.append("%s.%s" % (os.path.basename(co.co_filename)[:-3], co.co_name))
        tb = tb.tb_next
    if not frames:
        return "?"
    if recursion:
        from collections import Counter

        return Counter(frames).most_common(1)[0][0]
    return frames[-1]


_BASE: Dict[Tuple[str, str], int] = {}


def budget_for(seed: str, entry: str, data: bytes, opts: Dict[str, Any]) -> int:
    k = (seed, entry)
    if k not in _BASE:
        try:
            run_with_budget(lambda: run_entry(entry, data, opts), 10 ** 9)
        except Exception:  # noqa: BLE001
            pass
        _BASE[k] = last_steps()
    return 20 * _BASE[k] + 200000


def entries_for(opts: Dict[str, Any]) -> List[str]:
    return ENTRIES + (["nav"] if opts.get("nav") else [])


# --------------------------------------------------------------------------
def enumerate_cases(seed_name: str, doc: Doc, opts: Dict[str, Any]) -> List[Tuple[str, Any, str]]:
    """All (family, site, kind) of one seed, in a fixed order."""
    cases: List[Tuple[str, Any, str]] = []
    for path in all_sites(doc):
        for kind in VALUE_KINDS + STRUCT_KINDS:
            cases.append(("obj", path, kind))
    for n in stream_ids(doc):
        for kind in STREAM_KINDS:
            cases.append(("stream", n, kind))
    for bs in bit_sites(doc):
        cases.append(("bits", bs, "s_bit"))
    for n in text_stream_ids(doc):
        for ti in range(len(content_tokens(doc.objs[n].data))):
            for kind in CONTENT_KINDS:
                cases.append(("content", (n, ti), kind))
    for path in trailer_sites(doc, opts):
        for kind in VALUE_KINDS + STRUCT_KINDS:
            cases.append(("trailer", path, kind))
    if opts.get("xref") == "stream":
        for which in (("xref", "objstm") if opts.get("objstm") else ("xref",)):
            for key in CONTAINER_KEYS[which]:
                for kind in CONTAINER_KINDS:
                    cases.append(("container", (which, key), kind))
    data = build(doc, opts)
    full = seed_name in ("basic", "xrefstm")
    step = 1 if full else 7
    for off in range(0, len(data)):
        if off % step == 0 or _cut_inside_token(data, off):
            cases.append(("trunc", off, "truncate"))
    for kind in ("sx_zero", "sx_big", "sx_mid", "sx_missing", "sx_garbled", "xref_row_garbled", "xref_kw", "eof_missing", "header_missing",
                 # the chain of cross-reference sections: /Prev or /XRefStm leading back to the section itself, before the file,
                 # into the middle of the body, beyond the end
                 "prev_self", "prev_neg", "prev_mid", "prev_big", "xrefstm_self", "xrefstm_neg"):
        cases.append(("file", 0, kind))
    return cases


def make_case(doc: Doc, opts: Dict[str, Any], case: Tuple[str, Any, str], base: bytes) -> Optional[bytes]:
    fam, site, kind = case
    rng = random.Random("C13/%s/%s/%s" % (fam, site, kind))
    if fam == "obj":
        d2 = apply_fault(doc, tuple(tuple(s) if isinstance(s, list) else s for s in site), kind)
        return build(d2, opts) if d2 is not None else None
    if fam == "stream":
        d2 = apply_stream_fault(doc, site, kind, rng, opts)
        if d2 is None:
            return None
        if kind.startswith("s_len"):
            return build(d2, opts)
        return build(d2, opts)
    if fam == "bits":
        d2 = copy.deepcopy(doc)
        b = bytearray(d2.objs[site[0]].data)
        b[site[1]] ^= 1 << site[2]         # bit 0 = least significant
        d2.objs[site[0]].data = bytes(b)
        return build(d2, opts)
    if fam == "trailer":
        return apply_trailer_fault(doc, opts, tuple(tuple(x) if isinstance(x, list) else x for x in site), kind)
    if fam == "content":
        d2 = apply_content_fault(doc, site[0], site[1], kind)
        return build(d2, opts) if d2 is not None else None
    if fam == "container":
        return apply_container_fault(doc, opts, site[0], site[1], kind)
    if fam == "trunc":
        return base[:site]
    sx = base.rfind(b"startxref")
    if kind.startswith(("prev_", "xrefstm_")):
        key = "Prev" if kind.startswith("prev_") else "XRefStm"
        own = int(base[sx + 9:].split()[0])
        val = {"self": own, "neg": -5, "mid": len(base) // 2, "big": 10 ** 9}[kind.split("_")[1]]
        if opts.get("xref") == "stream":
            d2 = copy.deepcopy(doc)
            d2.container_hook = lambda w, d: d.__setitem__(key, 1111111111) if w == "xref" else None     # type: ignore[attr-defined]
            data = build(d2, opts)
            if val < 0:
                return data.replace(b"1111111111", b"%-10d" % val)
            own2 = int(data[data.rfind(b"startxref") + 9:].split()[0])
            return data.replace(b"1111111111", b"%010d" % (own2 if kind.endswith("self") else val))
        i = base.rfind(b"trailer")
        j = base.find(b"<<", i)
        if i < 0 or j < 0:
            return None
        return base[:j + 2] + b" /%s %d " % (key.encode(), val) + base[j + 2:]
    if kind == "sx_zero":
        return base[:sx] + b"startxref\n0\n%%EOF\n"
    if kind == "sx_big":
        return base[:sx] + b"startxref\n99999999\n%%EOF\n"
    if kind == "sx_mid":
        return base[:sx] + b"startxref\n%d\n%%%%EOF\n" % (len(base) // 2)
    if kind == "sx_missing":
        return base[:sx]
    if kind == "sx_garbled":
        return base[:sx] + b"startxref\n12x4\n%%EOF\n"
    if kind == "xref_row_garbled":
        i = base.rfind(b"\nxref\n")
        if i < 0:
            return None
        b = bytearray(base)
        b[i + 12] = 0x78
        b[i + 30] = 0x21
        return bytes(b)
    if kind == "xref_kw":
        i = base.rfind(b"\nxref\n")
        if i < 0:
            return None
        return base[:i + 1] + b"xrfe" + base[i + 5:]
    if kind == "eof_missing":
        return base.replace(b"%%EOF", b"")
    if kind == "header_missing":
        return base[9:]
    return None


def shards(tier: str, seed: int) -> List[Dict[str, Any]]:
    nshard = 64 if tier == "quick" else 160
    stride = 12 if tier == "quick" else 1
    out = [{"kind": "enum", "sub": i, "nshard": nshard, "stride": stride, "phase": seed % stride} for i in range(nshard)]
    # proportionality probes: the same document shape at two sizes; executed lines per unit of size must not grow
    for fam in SCALE_FAMILIES:
        out.append({"kind": "scale", "family": fam, "sub": 0})
    return out


# --------------------------------------------------------------------------
# proportionality probes ("work bounded in proportion to the input size")
# --------------------------------------------------------------------------
SCALE_FAMILIES = ["pages_in_objstm", "pages_direct", "outline_siblings", "name_tree", "revisions"]


def build_scaled(family: str, n: int) -> Tuple[bytes, Dict[str, Any], str]:
    """A well-formed document whose size is linear in n; -> (bytes, opts, entry point)."""
    from vf.gen.pdfw import N, font_type1

    doc = Doc()
    opts: Dict[str, Any] = {}
    entry = "extract_text"
    cat, pages = doc.alloc(), doc.alloc()
    catd: Dict[str, Any] = {"Type": N("Catalog"), "Pages": pages}
    kids = []
    npages = n if family in ("pages_in_objstm", "pages_direct") else 2
    for i in range(npages):
        f = doc.add(font_type1("Helvetica"))
        c = doc.add(Stream({}, b"BT /F1 10 Tf 20 100 Td (page %d) Tj ET" % i))
        kids.append(doc.add({"Type": N("Page"), "Parent": pages, "MediaBox": [0, 0, 200, 200], "Resources": doc.add({"Font": {"F1": f}}),
                             "Contents": c}))
    doc.set(pages, {"Type": N("Pages"), "Kids": kids, "Count": len(kids)})
    if family == "pages_in_objstm":
        opts = {"xref": "stream", "objstm": [k for k, v in doc.objs.items() if not isinstance(v, Stream)] + [cat.n, pages.n]}
    elif family == "outline_siblings":
        root = doc.alloc()
        items = [doc.alloc() for _ in range(n)]
        for i, it in enumerate(items):
            d = {"Title": b"item %d" % i, "Parent": root, "Dest": [kids[0], N("Fit")]}
            if i:
                d["Prev"] = items[i - 1]
            if i + 1 < n:
                d["Next"] = items[i + 1]
            doc.set(it, d)
        doc.set(root, {"Type": N("Outlines"), "First": items[0], "Last": items[-1], "Count": n})
        catd["Outlines"] = root
        opts = {"nav": True}
        entry = "nav"
    elif family == "name_tree":
        leaves = []
        for j in range(0, n, 8):
            names = []
            for i in range(j, min(j + 8, n)):
                names += [b"dest-%05d" % i, [kids[0], N("Fit")]]
            leaves.append(doc.add({"Limits": [names[0], names[-2]], "Names": names}))
        catd["Names"] = {"Dests": doc.add({"Kids": leaves})}
        catd["PageLabels"] = {"Nums": [x for i in range(0, n, 4) for x in (i, {"S": N("D"), "St": i + 1})]}
        opts = {"nav": True}
        entry = "nav"
    doc.set(cat, catd)
    doc.trailer["Root"] = cat
    if family == "revisions":
        from vf.gen.xrefw import render_history

        hist = []
        for r in range(max(n // 8, 2)):
            objs = {k: v for k, v in doc.objs.items()} if r == 0 else {kids[0].n: dict(doc.objs[kids[0].n]), 900 + r: {"Rev": r}}
            hist.append({"objs": objs, "root": cat.n, "info": None})
        R = render_history(hist, random.Random(13), forms=["table" if r % 2 else "stream" for r in range(len(hist))])
        return R.data, {}, "extract_text"
    return build(doc, opts), opts, entry


def run_scale(family: str, rec) -> None:
    small, large = 48, 192
    steps = {}
    size = {}
    for n in (small, large):
        data, opts, entry = build_scaled(family, n)
        try:
            run_with_budget(lambda: run_entry(entry, data, opts), 10 ** 9)
        except Exception as e:  # noqa: BLE001
            rec.fail("scale_probe_raised:%s:%s" % (family, type(e).__name__), {"scale_family": family}, "%s n=%d: %s: %s" % (family, n, type(e).__name__, e))
            return
        steps[n] = last_steps()
        size[n] = len(data)
    rec.count("scale_probes")
    rec.case(chash("scale", family), True)
    growth = steps[large] / max(steps[small], 1)
    sgrowth = size[large] / max(size[small], 1)
    rec.see("scale_growth", "%s:steps x%.1f for size x%.1f" % (family, growth, sgrowth))
    # linear work grows like the size (x4 here); quadratic work grows like its square (x16): the threshold lies between
    if growth > 2.2 * sgrowth:
        rec.fail("work_not_proportional:" + family, {"scale_family": family},
                 "%s: executed lines grew x%.1f (%d -> %d) while the document grew x%.1f (%d -> %d bytes)" % (
                     family, growth, steps[small], steps[large], sgrowth, size[small], size[large]))


_CUT_RE = re.compile(rb"(#[0-9A-Fa-f]?|\\[0-7]{0,2}|<[0-9A-Fa-f]?|startxref\s*|stream\r?|\d+ \d+ |~)$")


def _cut_inside_token(data: bytes, off: int) -> bool:
    """Truncation points that leave a half-read token: inside a #xx name escape, a backslash escape, a hex string or
    dictionary opener, right after startxref / stream, inside an indirect reference, inside the ASCII85 end marker."""
    return _CUT_RE.search(data[max(0, off - 12):off]) is not None


def case_stride(doc: Doc, case: Tuple[str, Any, str], stride: int, base: bytes = b"") -> int:
    """Sampling stride of one case in the quick tier: rare, single-case mechanisms are sampled more densely."""
    fam, site, kind = case
    if fam == "trunc" and _cut_inside_token(base, site):
        return 1                    # cuts that leave a half-read token: all of them, every run
    if fam == "bits" and site[1] < 8:
        return 1                    # header bits of LZW / RunLength / ASCII / CCITT payloads: all of them, every run
    if fam == "container":
        return min(stride, 2)
    if fam == "obj" and any(isinstance(x, tuple) and x[0] == "k" and x[1] in ("ColorSpace", "DecodeParms", "Encrypt") for x in site[1:]):
        return min(stride, 3)       # colour-space arrays, filter parameters: many types meet few code paths
    if fam == "content":
        return min(stride, 3)       # coprime with the 10 kinds per token: every kind is run for a third of the tokens
    if fam == "stream" and kind.startswith("s_lencut"):
        return min(stride, 2)
    if fam == "obj" and kind in ("string", "name"):
        parent, key = _container(doc, site)
        if isinstance(parent[key], (Name, bytes)):
            return 1                # text-like value swapped for the other text-like type (str vs bytes inside the library)
    if fam == "obj" and kind.startswith("ref_anc"):
        parent, key = _container(doc, site)
        if isinstance(parent[key], Ref):
            return min(stride, 3)   # a link redirected to an ancestor: consecutive kinds of one site cover every phase
    return stride


def run_shard(spec: Dict[str, Any], rec) -> None:
    sys.setrecursionlimit(1000)  # the interpreter default the property talks about
    if spec["kind"] == "scale":
        run_scale(spec["family"], rec)
        return
    seeds = [(name, fn()) for name, fn in SEEDS]
    gi = 0
    for name, (doc, opts) in seeds:
        base = build(doc, opts)
        cases = enumerate_cases(name, doc, opts)
        rec.see("seeds", name)
        for ci, case in enumerate(cases):
            gi += 1
            st = case_stride(doc, case, spec["stride"], base)
            if gi % st != spec["phase"] % st:
                continue
            if (gi // st) % spec["nshard"] != spec["sub"]:
                continue
            data = make_case(doc, opts, case, base)
            if data is None or data == base:
                rec.count("not_applicable_faults")
                continue
            fam, site, kind = case
            rec.see("kinds", kind)
            rec.count("fault_family:" + fam)
            rec.case(chash(data), True, n=0)
            for entry in entries_for(opts):
                budget = budget_for(name, entry, base, opts)
                if kind == "x_deep":
                    budget += 5000000     # the fault adds 3 KB of brackets, re-read with every uncached object fetch
                outcome, key = classify(entry, data, opts, budget)
                key = family_key(kind, outcome, key)
                rec.case(None, False)
                rec.count("outcome:" + outcome)
                if key:
                    rec.fail(key, {"seed": name, "family": fam, "site": list(site) if isinstance(site, tuple) else site, "kind": kind,
                                   "entry": entry}, "seed=%s %s site=%r kind=%s entry=%s -> %s" % (name, fam, site, kind, entry, key))
            if rec.want_sample() and fam == "obj" and ci % 37 == 0:
                rec.sample({"seed": name, "site": repr(site), "kind": kind, "bytes": len(data)})


def replay(case: Dict[str, Any]) -> List[Tuple[str, str]]:
    sys.setrecursionlimit(1000)
    if "scale_family" in case:
        from vf.common import Recorder

        r = Recorder()
        run_scale(case["scale_family"], r)
        return [(f["key"], f["detail"]) for f in r.failures]
    doc, opts = dict(SEEDS)[case["seed"]]()
    base = build(doc, opts)
    site = case["site"]
    if isinstance(site, list):
        site = tuple(tuple(s) if isinstance(s, list) else s for s in site)
    data = make_case(doc, opts, (case["family"], site, case["kind"]), base)
    if data is None:
        return []
    out = []
    entries = [case["entry"]] if case.get("entry") else entries_for(opts)
    for entry in entries:
        outcome, key = classify(entry, data, opts, budget_for(case["seed"], entry, base, opts) + (5000000 if case["kind"] == "x_deep" else 0))
        key = family_key(case["kind"], outcome, key)
        if key:
            out.append((key, "seed=%s site=%r kind=%s entry=%s -> %s" % (case["seed"], site, case["kind"], entry, key)))
    return out
