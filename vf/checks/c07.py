"""C07 — composite (Type0 / CID-keyed) fonts: segmentation, CID, Unicode, W/DW, W2/DW2.

Every case is a small generated document with one Type0 font.  It is run through
pdfminer (PDFPageAggregator(laparams=None), with a render_char wrapper that also
records the CID handed to the device) and every glyph is compared with a
reference model written from ISO 32000-1 9.7 / 9.10 and the OpenType 'cmap'
specification:

  ident       Identity-H/V by name, and embedded identity CMap streams named
              Identity-H/V, DLIdent-H/V, OneByteIdentityH/V: random byte strings
              (empty, odd lengths); CID == code, one glyph per code
  tounicode   ToUnicode programs (vf/ref/tounicode.py) on identity fonts
  cjk_legacy  predefined legacy-encoded CMaps x stdlib codecs   } text restricted to kana, hangul and
  cjk_unicode predefined Unicode-encoded CMaps x UTF-8/16/32   } unified ideographs of the codec's set
  tu_nonid    ToUnicode + non-identity CMap (TAGGED: known finding)
  ttf         Adobe-Identity + embedded TrueType 'cmap' (vf/gen/ttf07.py)
  adv_h/adv_v W/DW and W2/DW2 arrays, pen movement, vertical position vector
  shared      2-3 Type0 fonts (different Encoding and/or ToUnicode) over ONE indirect descendant CIDFont, font
              caching on, fonts interleaved on one page or spread over two pages
  ws1         one-byte identity font, Tw != 0, one-byte code 32 shown (TAGGED: known finding)
  (tag)       tounicode / ttf / mixed CJK documents are read a second time with output_type="tag"
  vdef        vertical default position vector (w0/2 from W/DW) — own family, tag kept for classification

CMapDB.get_cmap(name).decode and CMapDB.get_unicode_map(...).get_unichr are also
called directly for the predefined and identity CMaps.
"""
from __future__ import annotations

import io
import random
import string
import unicodedata
import zlib
from typing import Any, Dict, List, Optional, Tuple

from vf.common import chash
from vf.gen import ttf07
from vf.gen.pdfw import Doc, HexStr, N, Real, Ref, Stream, page_doc, ser
from vf.ref import tounicode as TU

ID = "C07"
LEVEL = "exploration"
DESIGN_REF = "DESIGN.md#C07"
TECHNIQUE = "generated Type0 fonts vs reference models (ISO 32000-1 9.7/9.10, OpenType cmap) and stdlib CJK codecs"
RULE = (
    "one case = one generated single-font document. ident: random byte strings (empty/odd/even, literal and hex) "
    "under 8 identity encodings; tounicode: random ToUnicode programs (bfchar, bfrange increment/array, 1-6 blocks, "
    "3 header forms, usecmap, 7 spelling bits) with every mapped code shown; cjk_*: 16 legacy + 32 Unicode-encoded "
    "predefined CMaps, text = kana/hangul/unified ideographs of the stdlib codec's set (exhaustive in thorough; all kana "
    "and a seeded sample of hangul/ideographs in quick) plus ASCII alphanumerics as 1-byte mix-ins; ttf: random format "
    "0/4 cmap tables; adv_*: random W/DW/W2/DW2 arrays in both syntaxes with agreeing overlaps and indirect elements, "
    "DW 0 / tiny DW and DW2[1]=0 together with a non-zero descriptor MissingWidth (never a CIDFont width source); "
    "shared: 2-3 Type0 fonts differing in Encoding (1-/2-byte, H/V) and/or ToUnicode over one shared indirect CIDFont, "
    "caching on, interleaved lines on one or two pages, each line judged by its own font; "
    "text state: Tc/Tw/Tz drawn for about half of the ident/adv/shared and a third of the tounicode cases, and with "
    "Tw != 0 the code <0020> (CID 32) leads every line of a two-byte font; W/W2 range entries ending at CID 65535 (65534 "
    "as control) with <FFFE><FFFF> shown; CIDSystemInfo with indirect dictionary / Registry / Ordering in the collection, "
    "legacy-CMap and TrueType families; the tounicode, ttf and mixed CJK cases are also read through "
    "extract_text_to_fp(output_type='tag') and its character data compared with the same expected text (a code without "
    "Unicode value contributes nothing and does not end the operand). "
    "distinct = distinct case descriptions; non-trivial = at least one glyph expected. "
    "Left out as undefined/ambiguous: bfrange whose last destination byte would overflow (9.10.3), destinations that are "
    "not UTF-16BE (odd length, lone surrogates), a source code defined twice, conflicting overlapping W/W2 entries, "
    "kana under the Big5 legacy CMaps and every vendor extension outside shift_jis/euc_jp(2-byte)/gb2312/gbk/big5/"
    "cp949/euc_kr, CID 0 and glyphs reached from several characters in TrueType cmaps, CIDToGIDMap streams, "
    "text rise and CTM (C05), the y-extent of vertical glyph boxes and their x-position when Tz != 100, the one-byte code "
    "32 together with Tw != 0 outside the tagged family ws1; a partial trailing code may be "
    "dropped or shown as one notdef glyph; ToUnicode+non-identity CMap and (historically) the vertical default "
    "position vector are generated only as tagged families."
)
LEVEL_TEXT = (
    "Randomised and (for the CJK character sets) exhaustive exploration: each generated font is decoded by pdfminer and "
    "compared glyph by glyph (CID, text, advance, pen position, vertical origin) with independent reference models; "
    "the CJK expectation comes from Python's codecs, not from Adobe's data. No claim beyond the explored cases."
)
ASSUMPTIONS = [
    "Python's stdlib codecs (shift_jis, euc_jp, gb2312, gbk, big5, cp949, euc_kr, utf-8/16/32) and unicodedata are correct",
    "'(cid:N)' is pdfminer's documented placeholder text for a CID without Unicode value (converter.handle_undefined_char); "
    "it is used to observe the CID and 'no Unicode defined'",
    "the source codes of a bfrange are the consecutive integers lo..hi (a two-byte range may cross a low-byte boundary)",
    "the left edge of a vertical glyph's box is glyph origin 0, i.e. pen_x - vx/1000*Tfs (ISO 32000-1 9.7.4.3 figure 40)",
    "Ts=0 and CTM=identity throughout (C05); Tc, Tw and Tz are varied in the ident/tounicode/adv/shared families and "
    "judged by 9.4.4 (tx = ((w0-Tj/1000)*Tfs+Tc+Tw)*Th, ty = (w1-Tj/1000)*Tfs+Tc+Tw) and 9.3.3 (Tw only for the "
    "single-byte code 32); with Tz != 100 the sideways position of a vertical glyph's box is not asserted",
]
SHARD_TIMEOUT = {"quick": 600, "thorough": 5400}

TAG_TU_NONID = "tounicode+nonidentity_cmap"
TAG_VDEF = "vertical_default_vx_ignores_w0"
TAG_WS1 = "wordspace+singlebyte_code32_composite"

# --------------------------------------------------------------------------
# numbers in case descriptions: int, or str with the exact decimal spelling
# --------------------------------------------------------------------------
Num = Any


def fnum(v: Num) -> float:
    return float(v)


def pnum(v: Num) -> Any:
    return Real(v) if isinstance(v, str) else int(v)


def close(a: float, b: float) -> bool:
    return abs(a - b) <= 1e-9 * max(1.0, abs(a), abs(b))


# --------------------------------------------------------------------------
# CJK domains, fixed by the stdlib codecs and unicodedata only
# --------------------------------------------------------------------------
def char_class(c: str) -> Optional[str]:
    try:
        n = unicodedata.name(c)
    except ValueError:
        return None
    if n.startswith("CJK UNIFIED IDEOGRAPH-"):
        return "ideograph"
    if n.startswith(("HIRAGANA LETTER", "KATAKANA LETTER", "HALFWIDTH KATAKANA LETTER")):
        return "kana"
    if n.startswith(("HANGUL SYLLABLE", "HANGUL LETTER")):
        return "hangul"
    return None


_CLASSED: Optional[List[Tuple[str, str]]] = None


def classed_chars() -> List[Tuple[str, str]]:
    global _CLASSED
    if _CLASSED is None:
        out = []
        for i in range(0x80, 0x30000):
            if 0xD800 <= i < 0xE000:
                continue
            k = char_class(chr(i))
            if k:
                out.append((chr(i), k))
        _CLASSED = out
    return _CLASSED


# legacy CMap base name -> (codec, collection, classes kept)
#   Big5: python's big5 codec places kana at 0xC6A5.. (an ETen-extension layout); Adobe's ETen-B5 has circled
#   digits there and B5pc nothing — a documented vendor difference, so only ideographs are in the Big5 domain.
LEGACY = {
    "90ms-RKSJ": ("shift_jis", "Japan1", ("kana", "ideograph")),
    "EUC": ("euc_jp", "Japan1", ("kana", "ideograph")),
    "GBK-EUC": ("gbk", "GB1", ("kana", "ideograph")),
    "GB-EUC": ("gb2312", "GB1", ("kana", "ideograph")),
    "ETen-B5": ("big5", "CNS1", ("ideograph",)),
    "B5pc": ("big5", "CNS1", ("ideograph",)),
    "KSCms-UHC": ("cp949", "Korea1", ("kana", "hangul", "ideograph")),
    "KSC-EUC": ("euc_kr", "Korea1", ("kana", "hangul", "ideograph")),
}
# Unicode-encoded CMap base -> (codec that fixes the national character set, collection)
UNICODE = {
    "UniJIS": ("shift_jis", "Japan1"),
    "UniGB": ("gbk", "GB1"),
    "UniCNS": ("big5", "CNS1"),
    "UniKS": ("cp949", "Korea1"),
}
UNI_ENC = {"UCS2": "utf-16-be", "UTF16": "utf-16-be", "UTF8": "utf-8", "UTF32": "utf-32-be"}
SUPPLEMENT = {"Japan1": 2, "GB1": 2, "CNS1": 0, "Korea1": 1}
ALNUM = string.ascii_letters + string.digits

_DOMAINS: Dict[Tuple[str, Tuple[str, ...]], List[str]] = {}


def domain(codec: str, classes: Tuple[str, ...] = ("kana", "hangul", "ideograph")) -> List[str]:
    """Characters of the three classes that the codec encodes in at most two bytes (its national base set)."""
    key = (codec, tuple(classes))
    d = _DOMAINS.get(key)
    if d is None:
        d = []
        for c, k in classed_chars():
            if k not in classes:
                continue
            try:
                b = c.encode(codec)
            except UnicodeEncodeError:
                continue
            if len(b) <= 2 and b.decode(codec) == c:
                d.append(c)
        _DOMAINS[key] = d
    return d


def cjk_cmaps() -> List[Dict[str, Any]]:
    out = []
    for base, (codec, coll, classes) in LEGACY.items():
        for hv in "HV":
            out.append({"cmap": "%s-%s" % (base, hv), "enc": codec, "dom": codec, "coll": coll, "classes": list(classes),
                        "fam": "cjk_legacy"})
    for base, (codec, coll) in UNICODE.items():
        for e, pyenc in UNI_ENC.items():
            for hv in "HV":
                out.append({"cmap": "%s-%s-%s" % (base, e, hv), "enc": pyenc, "dom": codec, "coll": coll,
                            "classes": ["kana", "hangul", "ideograph"], "fam": "cjk_unicode"})
    return out


# --------------------------------------------------------------------------
# font / document builder
# --------------------------------------------------------------------------
def identity_cmap_program(name: str, nbytes: int, wmode: int) -> bytes:
    """An embedded identity CMap file (Adobe TN 5014 syntax): code == CID."""
    hi = "FF" * nbytes
    lo = "00" * nbytes
    lines = [
        "%!PS-Adobe-3.0 Resource-CMap", "/CIDInit /ProcSet findresource begin", "12 dict begin", "begincmap",
        "/CIDSystemInfo << /Registry (Adobe) /Ordering (Identity) /Supplement 0 >> def",
        "/CMapName /%s def" % name, "/CMapType 1 def", "/WMode %d def" % wmode,
        "1 begincodespacerange", "<%s> <%s>" % (lo, hi), "endcodespacerange",
    ]
    if nbytes == 1:
        lines += ["1 begincidrange", "<00> <FF> 0", "endcidrange"]
    else:
        # one range per high byte: only the last byte varies inside a range
        for base in range(0, 256, 100):
            n = min(100, 256 - base)
            lines.append("%d begincidrange" % n)
            for h in range(base, base + n):
                lines.append("<%02X00> <%02XFF> %d" % (h, h, h * 256))
            lines.append("endcidrange")
    lines += ["endcmap", "CMapName currentdict /CMap defineresource pop", "end", "end"]
    return ("\n".join(lines) + "\n").encode("ascii")


IDENT_KINDS = [
    # (CMapName, form, bytes per code, vertical)
    ("Identity-H", "name", 2, False), ("Identity-V", "name", 2, True),
    ("Identity-H", "stream", 2, False), ("Identity-V", "stream", 2, True),
    ("DLIdent-H", "stream", 2, False), ("DLIdent-V", "stream", 2, True),
    ("OneByteIdentityH", "stream", 1, False), ("OneByteIdentityV", "stream", 1, True),
]


def _w_array(doc: Doc, w: Dict[str, Any]) -> Any:
    """Serialise a W structure; flags ask for indirect elements."""
    arr: List[Any] = []

    def num(v: Num, ind: bool) -> Any:
        return doc.add(pnum(v)) if ind else pnum(v)

    for it in w["items"]:
        ic, iw, ia = it.get("ic", False), it.get("iw", False), it.get("ia", False)
        if it["t"] == "l":
            inner = [num(x, iw and k % 2 == 0) for k, x in enumerate(it["ws"])]
            arr.append(num(it["c"], ic))
            arr.append(doc.add(inner) if ia else inner)
        else:
            arr += [num(it["c1"], ic), num(it["c2"], False), num(it["w"], iw)]
    return doc.add(arr) if w.get("ref") else arr


def _w2_array(doc: Doc, w2: Dict[str, Any]) -> Any:
    arr: List[Any] = []

    def num(v: Num, ind: bool) -> Any:
        return doc.add(pnum(v)) if ind else pnum(v)

    for it in w2["items"]:
        ic, iw, ia = it.get("ic", False), it.get("iw", False), it.get("ia", False)
        if it["t"] == "l":
            inner: List[Any] = []
            for k, (w1, vx, vy) in enumerate(it["ms"]):
                inner += [num(w1, iw and k % 2 == 0), num(vx, False), num(vy, iw and k % 2 == 1)]
            arr.append(num(it["c"], ic))
            arr.append(doc.add(inner) if ia else inner)
        else:
            arr += [num(it["c1"], ic), num(it["c2"], False), num(it["w1"], iw), num(it["vx"], False), num(it["vy"], False)]
    return doc.add(arr) if w2.get("ref") else arr


def _add_cidfont(doc: Doc, font: Dict[str, Any]) -> Ref:
    """The descendant CIDFont (always an indirect object)."""
    fd: Dict[str, Any] = {
        "Type": N("FontDescriptor"), "FontName": N("VFCID"), "Flags": 4, "FontBBox": [0, -120, 1000, 880],
        "ItalicAngle": 0, "Ascent": 880, "Descent": -120, "CapHeight": 700, "StemV": 80,
    }
    if font.get("MissingWidth") is not None:
        # MissingWidth belongs to simple fonts (9.8.1); the widths of a CIDFont come from W / DW only
        fd["MissingWidth"] = pnum(font["MissingWidth"])
    if font.get("ttf") is not None:
        data = ttf07.build_ttf(font["ttf"])
        sd: Dict[str, Any] = {"Length1": len(data)}
        if font.get("ttf_flate"):
            sd["Filter"] = N("FlateDecode")
            data_enc = zlib.compress(data)
        else:
            data_enc = data
        fd["FontFile2"] = doc.add(Stream(sd, data_enc))
    reg, ordering, supp = font["ros"]
    how = font.get("csi") or ""          # letters: d = dictionary, r = /Registry, o = /Ordering given by reference
    csi: Any = {"Registry": doc.add(reg.encode()) if "r" in how else reg.encode(),
                "Ordering": doc.add(ordering.encode()) if "o" in how else ordering.encode(), "Supplement": supp}
    if "d" in how:
        csi = doc.add(csi)
    cid: Dict[str, Any] = {
        "Type": N("Font"), "Subtype": N(font.get("cidsub", "CIDFontType2")), "BaseFont": N("VFCID"),
        "CIDSystemInfo": csi,
        "FontDescriptor": doc.add(fd),
    }
    if font.get("cidsub", "CIDFontType2") == "CIDFontType2" and font.get("cidtogid"):
        cid["CIDToGIDMap"] = N("Identity")
    if font.get("DW") is not None:
        cid["DW"] = doc.add(pnum(font["DW"])) if font.get("DW_ref") else pnum(font["DW"])
    if font.get("W") is not None:
        cid["W"] = _w_array(doc, font["W"])
    if font.get("DW2") is not None:
        dw2 = [pnum(font["DW2"][0]), pnum(font["DW2"][1])]
        cid["DW2"] = doc.add(dw2) if font.get("DW2_ref") else dw2
    if font.get("W2") is not None:
        cid["W2"] = _w2_array(doc, font["W2"])
    return doc.add(cid)


def _add_type0(doc: Doc, font: Dict[str, Any], cidref: Ref) -> Ref:
    cmapname = font["cmap"]
    if font.get("enc_form", "name") == "name":
        enc: Any = N(cmapname)
    else:
        nbytes = font.get("nbytes", 2)
        wmode = 1 if font.get("vertical") else 0
        sd = {"Type": N("CMap"), "CMapName": N(cmapname),
              "CIDSystemInfo": {"Registry": b"Adobe", "Ordering": b"Identity", "Supplement": 0}, "WMode": wmode}
        enc = doc.add(Stream(sd, identity_cmap_program(cmapname, nbytes, wmode)))
    t0: Dict[str, Any] = {"Type": N("Font"), "Subtype": N("Type0"), "BaseFont": N("VFCID"), "Encoding": enc,
                          "DescendantFonts": [cidref]}
    if font.get("tounicode") is not None:
        extra, data = TU.stream_parts(font["tounicode"])
        t0["ToUnicode"] = doc.add(Stream({k: N(v) for k, v in extra.items()}, data))
    return doc.add(t0)


def _show_ops(ln: Dict[str, Any]) -> List[bytes]:
    out = [b" ".join(ser(pnum(v)) for v in ln["tm"]) + b" Tm"]
    for op in ln["shows"]:
        if op[0] == "Tj":
            out.append(_pdfstr(op[1], op[2] if len(op) > 2 else 1) + b" Tj")
        else:
            parts = []
            for k, it in enumerate(op[1]):
                if isinstance(it, (bytes, bytearray)):
                    parts.append(_pdfstr(bytes(it), (op[2] if len(op) > 2 else 1) + k))
                else:
                    parts.append(ser(pnum(it)))
            out.append(b"[" + b" ".join(parts) + b"] TJ")
    return out


def _ts_ops(ts: Optional[Dict[str, Any]]) -> List[bytes]:
    out = []
    for k in ("Tc", "Tw", "Tz"):
        if ts and ts.get(k) is not None:
            out.append(ser(pnum(ts[k])) + b" " + k.encode())
    return out


def build_pdf(font: Dict[str, Any], lines: List[Dict[str, Any]], fs: Num, ts: Optional[Dict[str, Any]] = None) -> bytes:
    doc = Doc()
    fref = _add_type0(doc, font, _add_cidfont(doc, font))
    out = [b"BT", b"/F1 " + ser(pnum(fs)) + b" Tf"] + _ts_ops(ts)
    for ln in lines:
        out += _show_ops(ln)
    out.append(b"ET")
    page_doc([{"content": b"\n".join(out) + b"\n", "resources": {"Font": {"F1": fref}}}], doc)
    return doc.build()


def build_pdf_shared(cidfont: Dict[str, Any], fonts: List[Dict[str, Any]], lines: List[Dict[str, Any]], fs: Num,
                     ts: Optional[Dict[str, Any]] = None) -> bytes:
    """Several Type0 fonts over ONE indirect descendant CIDFont; every line selects its font (and page)."""
    doc = Doc()
    cidref = _add_cidfont(doc, cidfont)
    frefs = {"F%d" % (i + 1): _add_type0(doc, f, cidref) for i, f in enumerate(fonts)}
    res = doc.add({"Font": frefs})
    npages = 1 + max(ln.get("page", 0) for ln in lines)
    pages = []
    for p in range(npages):
        out = [b"BT"] + _ts_ops(ts)  # the text state starts afresh on every page
        for ln in lines:
            if ln.get("page", 0) != p:
                continue
            out.append(b"/F%d " % (ln["font"] + 1) + ser(pnum(fs)) + b" Tf")
            out += _show_ops(ln)
        out.append(b"ET")
        pages.append({"content": b"\n".join(out) + b"\n", "resources": res})
    page_doc(pages, doc)
    return doc.build()


def _pdfstr(b: bytes, how: int) -> bytes:
    return ser(HexStr(b)) if how % 2 else ser(bytes(b))


# --------------------------------------------------------------------------
# observation
# --------------------------------------------------------------------------
_DEV = None


def _device_class():
    global _DEV
    if _DEV is None:
        from pdfminer.converter import PDFPageAggregator

        class Dev(PDFPageAggregator):
            def __init__(self, rm):
                PDFPageAggregator.__init__(self, rm, laparams=None)
                self.cids: List[int] = []

            def render_char(self, matrix, font, fontsize, scaling, rise, cid, ncs, graphicstate):
                self.cids.append(cid)
                return PDFPageAggregator.render_char(self, matrix, font, fontsize, scaling, rise, cid, ncs, graphicstate)

        _DEV = Dev
    return _DEV


def _exc_key(e: BaseException) -> str:
    tb = e.__traceback__
    fn = "?"
    while tb is not None:
        if "pdfminer" in tb.tb_frame.f_code.co_filename:
            fn = tb.tb_frame.f_code.co_name
        tb = tb.tb_next
    return "exception:%s:%s" % (type(e).__name__, fn)


def observe(data: bytes, caching: bool = False, npages: int = 1) -> Tuple[Optional[List[Dict[str, Any]]], Optional[Tuple[str, str]]]:
    """-> (glyphs of all pages in order, None) or (None, (key, detail)).  One resource manager for the document."""
    from pdfminer.layout import LTChar
    from pdfminer.pdfinterp import PDFPageInterpreter, PDFResourceManager
    from pdfminer.pdfpage import PDFPage

    try:
        rm = PDFResourceManager(caching=caching)
        dev = _device_class()(rm)
        it = PDFPageInterpreter(rm, dev)
        pages = list(PDFPage.get_pages(io.BytesIO(data)))
        if len(pages) != npages:
            return None, ("harness:pages", "expected %d page(s), got %d" % (npages, len(pages)))
        out: List[Dict[str, Any]] = []
        for page in pages:
            dev.cids = []
            it.process_page(page)
            lt = dev.get_result()
            chars = [o for o in lt if isinstance(o, LTChar)]
            if len(chars) != len(dev.cids):
                return None, ("glyph_objects", "%d render_char calls but %d LTChar objects" % (len(dev.cids), len(chars)))
            out += [{"cid": c, "text": ch.get_text(), "adv": ch.adv, "matrix": tuple(ch.matrix), "bbox": tuple(ch.bbox)}
                    for c, ch in zip(dev.cids, chars)]
        return out, None
    except RecursionError as e:
        return None, ("exception:RecursionError", repr(e))
    except Exception as e:  # noqa: BLE001
        return None, (_exc_key(e), repr(e))


# --------------------------------------------------------------------------
# reference model of the text-showing part (ISO 32000-1 9.4.4, Tc=Tw=0, Th=1, Trise=0)
# --------------------------------------------------------------------------
def ts_values(ts: Optional[Dict[str, Any]]) -> Tuple[float, float, float]:
    """(Tc, Tw, Th) of a case's text state; defaults 0, 0, 1."""
    if not ts:
        return 0.0, 0.0, 1.0
    return fnum(ts.get("Tc", 0)), fnum(ts.get("Tw", 0)), fnum(ts.get("Tz", 100)) / 100.0


def model(lines: List[Dict[str, Any]], fs: Num, vertical: bool, split, glyph, ts: Optional[Dict[str, Any]] = None,
          nbytes: Optional[int] = None, apply_ws: bool = True) -> List[Dict[str, Any]]:
    """split(bytes) -> [(code, optional)], glyph(code) -> dict(cid, text, w[, vx]) (w: w0 or w1y in glyph units).

    Pen movement per 9.4.4:  tx = ((w0 - Tj/1000) * Tfs + Tc + Tw) * Th     (horizontal writing)
                             ty =  (w1 - Tj/1000) * Tfs + Tc + Tw           (vertical writing: no Th)
    Tw is added only for the single-byte code 32 (9.3.3): never for <0020> as part of a two-byte code, and for a
    composite font only if its CMap makes 32 a one-byte code (nbytes == 1).  LTChar.adv is the glyph's own
    displacement (w0*Tfs*Th resp. w1*Tfs), without Tc / Tw."""
    out: List[Dict[str, Any]] = []
    f = fnum(fs)
    tc, tw, th = ts_values(ts)
    for ln in lines:
        a, b, c, d, e, g = [fnum(v) for v in ln["tm"]]
        x = y = 0.0
        for op in ln["shows"]:
            items = [op[1]] if op[0] == "Tj" else op[1]
            for it in items:
                if not isinstance(it, (bytes, bytearray)):
                    if vertical:
                        y -= fnum(it) / 1000.0 * f
                    else:
                        x -= fnum(it) / 1000.0 * f * th
                    continue
                for code, optional in split(bytes(it)):
                    gl = dict(glyph(code))
                    adv = gl["w"] / 1000.0 * f * (1.0 if vertical else th)
                    gl.update({"code": code, "adv": adv, "pen": (a * x + c * y + e, b * x + d * y + g), "a": a,
                               "opt": optional})
                    if vertical and th != 1.0:
                        gl["vx"] = None  # where Th puts the glyph origin sideways is not asserted
                    out.append(gl)
                    if optional:
                        continue  # only ever the last glyph of a line
                    ws = tw if (apply_ws and nbytes == 1 and code == 32) else 0.0
                    if vertical:
                        y += gl["w"] / 1000.0 * f + tc + ws
                    else:
                        x += (gl["w"] / 1000.0 * f + tc + ws) * th
    return out


def compare(fam: str, vertical: bool, fs: Num, exp: List[Dict[str, Any]], obs: List[Dict[str, Any]],
            check_vx: bool = True) -> List[Tuple[str, str]]:
    fails: List[Tuple[str, str]] = []
    f = fnum(fs)
    j = 0
    for i, e in enumerate(exp):
        o = obs[j] if j < len(obs) else None
        if e["opt"]:
            # a partial trailing code may be shown as one notdef glyph (9.7.6.3) or dropped
            if o is not None and o["cid"] == 0 and close(o["matrix"][4], e["pen"][0]) and close(o["matrix"][5], e["pen"][1]):
                j += 1
            continue
        if o is None:
            fails.append(("glyph_count:" + fam, "expected %d glyphs, observed %d (missing from #%d, code %r)"
                          % (sum(1 for q in exp if not q["opt"]), len(obs), i, e["code"])))
            return fails
        j += 1
        where = "glyph #%d code=%r" % (i, e["code"])
        if e.get("cid") is not None and o["cid"] != e["cid"]:
            fails.append(("cid:" + fam, "%s: CID %r, expected %r" % (where, o["cid"], e["cid"])))
            return fails
        if e.get("text") is not None and o["text"] != e["text"]:
            fails.append(("text:" + fam, "%s cid=%r: text %r, expected %r" % (where, o["cid"], o["text"], e["text"])))
        if not close(o["adv"], e["adv"]):
            fails.append(("adv:" + fam, "%s cid=%r: adv %r, expected %r" % (where, o["cid"], o["adv"], e["adv"])))
        m = o["matrix"]
        if not (close(m[4], e["pen"][0]) and close(m[5], e["pen"][1])):
            fails.append(("pen:" + fam, "%s cid=%r: glyph origin (%r, %r), expected %r" % (where, o["cid"], m[4], m[5], e["pen"])))
        elif vertical:
            if check_vx and e.get("vx") is not None:
                x0 = e["pen"][0] - e["a"] * e["vx"] / 1000.0 * f
                if not close(o["bbox"][0], x0):
                    fails.append(("vertical_origin_x:" + fam, "%s cid=%r: box left edge %r, expected pen_x - vx/1000*Tfs = %r"
                                  % (where, o["cid"], o["bbox"][0], x0)))
        else:
            x0 = e["pen"][0]
            x1 = e["pen"][0] + e["a"] * e["adv"]
            if not (close(o["bbox"][0], min(x0, x1)) and close(o["bbox"][2], max(x0, x1))):
                fails.append(("bbox_x:" + fam, "%s cid=%r: box x-extent (%r, %r), expected (%r, %r)"
                              % (where, o["cid"], o["bbox"][0], o["bbox"][2], min(x0, x1), max(x0, x1))))
        if len(fails) >= 4:
            return fails
    if j != len(obs):
        fails.append(("glyph_count:" + fam, "expected %d glyphs, observed %d (extra: cid %r text %r)"
                      % (sum(1 for q in exp if not q["opt"]), len(obs), obs[j]["cid"], obs[j]["text"])))
    return fails


# --------------------------------------------------------------------------
# width reference (ISO 32000-1 9.7.4.3)
# --------------------------------------------------------------------------
def eval_w(w: Optional[Dict[str, Any]]) -> Dict[int, float]:
    m: Dict[int, float] = {}
    if not w:
        return m
    for it in w["items"]:
        if it["t"] == "l":
            for i, x in enumerate(it["ws"]):
                _put(m, it["c"] + i, fnum(x))
        else:
            for c in range(it["c1"], it["c2"] + 1):
                _put(m, c, fnum(it["w"]))
    return m


def eval_w2(w2: Optional[Dict[str, Any]]) -> Dict[int, Tuple[float, float, float]]:
    m: Dict[int, Tuple[float, float, float]] = {}
    if not w2:
        return m
    for it in w2["items"]:
        if it["t"] == "l":
            for i, (w1, vx, vy) in enumerate(it["ms"]):
                _put(m, it["c"] + i, (fnum(w1), fnum(vx), fnum(vy)))
        else:
            for c in range(it["c1"], it["c2"] + 1):
                _put(m, c, (fnum(it["w1"]), fnum(it["vx"]), fnum(it["vy"])))
    return m


def _put(m: Dict[int, Any], c: int, v: Any) -> None:
    if c in m and m[c] != v:
        # the spec does not say which of two conflicting entries wins: such arrays are not generated
        raise ValueError("conflicting width entries for CID %d" % c)
    m[c] = v


# --------------------------------------------------------------------------
# realise: case description -> (font, lines, fs, expected glyphs, vertical)
# --------------------------------------------------------------------------
def split_fixed(nbytes: int):
    def split(b: bytes) -> List[Tuple[int, bool]]:
        out = [(int.from_bytes(b[i:i + nbytes], "big"), False) for i in range(0, len(b) - nbytes + 1, nbytes)]
        if len(b) % nbytes:
            out.append((0, True))
        return out
    return split


def cid_text(cid: int) -> str:
    return "(cid:%d)" % cid


def realise(case: Dict[str, Any], apply_ws: bool = True):
    fam = case["fam"]
    fs = case.get("fs", 10)
    lines = case["lines"]

    if fam in ("ident", "tounicode", "ttf", "adv_h", "adv_v", "vdef", "ws1"):
        name, form, nbytes, vertical = case["cmap"], case["enc_form"], case["nbytes"], case["vertical"]
        font: Dict[str, Any] = {"cmap": name, "enc_form": form, "nbytes": nbytes, "vertical": vertical,
                                "ros": ["Adobe", "Identity", 0], "cidsub": case.get("cidsub", "CIDFontType2"),
                                "cidtogid": case.get("cidtogid", False)}
        for k in ("W", "DW", "W2", "DW2", "DW_ref", "DW2_ref", "tounicode", "ttf", "ttf_flate", "MissingWidth", "csi"):
            if case.get(k) is not None:
                font[k] = case[k]
        umap: Optional[Dict[int, str]] = None
        if case.get("tounicode") is not None:
            umap = TU.evaluate(case["tounicode"])
        elif case.get("ttf") is not None:
            c2g = ttf07.char2gid(case["ttf"])
            inv: Dict[int, List[int]] = {}
            for ch, g in c2g.items():
                inv.setdefault(g, []).append(ch)
            umap = {g: chr(chs[0]) for g, chs in inv.items() if len(chs) == 1}
            ambiguous = {g for g, chs in inv.items() if len(chs) > 1}
        wmap = eval_w(case.get("W"))
        w2map = eval_w2(case.get("W2"))
        dw = fnum(case["DW"]) if case.get("DW") is not None else 1000.0
        dw2 = [fnum(v) for v in case["DW2"]] if case.get("DW2") is not None else [880.0, -1000.0]
        nocheck_unmapped = bool(case.get("tounicode") and case["tounicode"].get("usecmap"))

        def glyph(code: int) -> Dict[str, Any]:
            cid = code
            if umap is None:
                text: Optional[str] = cid_text(cid)
            elif cid in umap:
                text = umap[cid]
            elif nocheck_unmapped or (case.get("ttf") is not None and (cid in ambiguous or cid == 0)):
                text = None
            else:
                text = cid_text(cid)
            if vertical:
                if cid in w2map:
                    w1, vx, _vy = w2map[cid]
                    return {"cid": cid, "text": text, "w": w1, "vx": vx}
                # default position vector: (w0/2, DW2[0]); w0 from W/DW of the same font
                return {"cid": cid, "text": text, "w": dw2[1], "vx": wmap.get(cid, dw) / 2.0}
            return {"cid": cid, "text": text, "w": wmap.get(cid, dw)}

        exp = model(lines, fs, vertical, split_fixed(nbytes), glyph, case.get("ts"), nbytes, apply_ws)
        return font, lines, fs, exp, vertical

    if fam in ("cjk_legacy", "cjk_unicode", "tu_nonid"):
        name = case["cmap"]
        vertical = name.endswith("-V")
        enc = case["enc"]
        coll = case["coll"]
        font = {"cmap": name, "enc_form": "name", "ros": ["Adobe", coll, SUPPLEMENT[coll]],
                "cidsub": case.get("cidsub", "CIDFontType0"), "csi": case.get("csi")}
        umap2: Optional[Dict[int, str]] = None
        if case.get("tounicode") is not None:
            font["tounicode"] = case["tounicode"]
            umap2 = TU.evaluate(case["tounicode"])
        # lines hold *text*; turn them into byte strings with the independent codec, one character at a time
        blines = []
        seq: List[Tuple[str, bytes]] = []
        for ln in lines:
            shows = []
            for op in ln["shows"]:
                if op[0] == "Tj":
                    bs = [ch.encode(enc) for ch in op[1]]
                    seq += list(zip(op[1], bs))
                    shows.append(["Tj", b"".join(bs), op[2] if len(op) > 2 else 1])
                else:
                    items: List[Any] = []
                    for it in op[1]:
                        if isinstance(it, str):
                            bs = [ch.encode(enc) for ch in it]
                            seq += list(zip(it, bs))
                            items.append(b"".join(bs))
                        else:
                            items.append(it[0])  # [number]: a TJ adjustment
                    shows.append(["TJ", items, op[2] if len(op) > 2 else 1])
            blines.append({"tm": ln["tm"], "shows": shows})
        # expected glyph list: one glyph per source character
        pos = [0]

        def split(b: bytes) -> List[Tuple[Any, bool]]:
            out = []
            used = 0
            while used < len(b):
                ch, bs = seq[pos[0]]
                assert b[used:used + len(bs)] == bs
                out.append(((ch, bs), False))
                used += len(bs)
                pos[0] += 1
            return out

        def glyph2(code: Tuple[str, bytes]) -> Dict[str, Any]:
            ch, bs = code
            if umap2 is not None:
                text = umap2.get(int.from_bytes(bs, "big"), None)
            else:
                text = ch
            g = {"cid": None, "text": text, "w": -1000.0 if vertical else 1000.0}
            if vertical:
                g["vx"] = 500.0
            return g

        exp = model(blines, fs, vertical, split, glyph2)
        for e in exp:
            e["code"] = "%s <%s>" % (e["code"][0], e["code"][1].hex())
        return font, blines, fs, exp, vertical

    raise ValueError("unknown family %r" % fam)


# --------------------------------------------------------------------------
# direct API observations
# --------------------------------------------------------------------------
def api_identity(name: str, nbytes: int, vertical: bool, data: bytes) -> List[Tuple[str, str]]:
    from pdfminer.cmapdb import CMapDB

    exp = [c for c, opt in split_fixed(nbytes)(data) if not opt]
    try:
        cm = CMapDB.get_cmap(name)
        got = list(cm.decode(data))
        vert = cm.is_vertical()
    except Exception as e:  # noqa: BLE001
        return [(_exc_key(e), "CMapDB.get_cmap(%r).decode(%r): %r" % (name, data, e))]
    fails = []
    if got != exp and not (len(data) % nbytes and got == exp + [0]):
        fails.append(("api_decode:ident", "get_cmap(%r).decode(%r) = %r, expected %r" % (name, data, got, exp)))
    if bool(vert) != vertical:
        fails.append(("api_vertical", "get_cmap(%r).is_vertical() = %r" % (name, vert)))
    return fails


def api_cjk(name: str, coll: str, enc: str, text: str) -> List[Tuple[str, str]]:
    from pdfminer.cmapdb import CMapDB

    vertical = name.endswith("-V")
    try:
        cm = CMapDB.get_cmap(name)
        um = CMapDB.get_unicode_map("Adobe-" + coll, vertical)
        data = b"".join(ch.encode(enc) for ch in text)
        cids = list(cm.decode(data))
        vert = cm.is_vertical()
    except Exception as e:  # noqa: BLE001
        return [(_exc_key(e), "CMapDB %r: %r" % (name, e))]
    fails = []
    if bool(vert) != vertical:
        fails.append(("api_vertical", "get_cmap(%r).is_vertical() = %r" % (name, vert)))
    if len(cids) != len(text):
        # locate the first character that does not give exactly one CID
        for ch in text:
            one = list(cm.decode(ch.encode(enc)))
            if len(one) != 1:
                fails.append(("api_decode:cjk", "get_cmap(%r).decode(%r) [%r in %s] = %r, expected one CID"
                              % (name, ch.encode(enc), ch, enc, one)))
                break
        else:
            fails.append(("api_decode:cjk", "get_cmap(%r).decode of %d characters gave %d CIDs" % (name, len(text), len(cids))))
        return fails
    for ch, cid in zip(text, cids):
        try:
            u = um.get_unichr(cid)
        except KeyError:
            u = None
        except Exception as e:  # noqa: BLE001
            return fails + [(_exc_key(e), "get_unichr(%r): %r" % (cid, e))]
        if u != ch:
            fails.append(("api_unichr", "%s: %r <%s> -> CID %r -> %r, expected %r (Adobe-%s, vertical=%r)"
                          % (name, ch, ch.encode(enc).hex(), cid, u, ch, coll, vertical)))
            break
    return fails


# --------------------------------------------------------------------------
# running one case
# --------------------------------------------------------------------------
def check_case(case: Dict[str, Any]) -> Tuple[List[Tuple[str, str]], Dict[str, Any]]:
    """-> (failures, stats)."""
    fam = case["fam"]
    if fam == "shared":
        return check_shared(case)
    stats: Dict[str, Any] = {"glyphs": 0}
    font, lines, fs, exp, vertical = realise(case)
    data = build_pdf(font, lines, fs, case.get("ts"))
    obs, err = observe(data)
    fails: List[Tuple[str, str]] = []
    nexp = sum(1 for e in exp if not e["opt"])
    stats["glyphs"] = nexp
    if err is not None:
        fails.append((err[0], "%s: %s" % (_brief(case), err[1])))
    else:
        assert obs is not None
        if fam == "tu_nonid":
            fails += _compare_tagged_tu(case, exp, obs, vertical, fs)
        elif fam == "vdef":
            fails += _compare_tagged_vdef(case, exp, obs, fs)
        elif fam == "ws1":
            fails += _compare_tagged_ws1(case, exp, obs, vertical, fs)
        else:
            fails += [(k, "%s: %s" % (_brief(case), d)) for k, d in compare(fam, vertical, fs, exp, obs)]
    if fam in ("tounicode", "ttf") or (fam in ("cjk_legacy", "cjk_unicode") and case.get("tagrun")):
        r = check_tag(case, data, exp)
        stats["tag_runs"] = 1
        fails += r
    # direct API
    if fam == "ident":
        apiname = {"DLIdent-H": "Identity-H", "DLIdent-V": "Identity-V"}.get(case["cmap"], case["cmap"])
        for ln in lines:
            for op in ln["shows"]:
                for it in ([op[1]] if op[0] == "Tj" else op[1]):
                    if isinstance(it, (bytes, bytearray)):
                        fails += api_identity(apiname, case["nbytes"], case["vertical"], bytes(it))
    elif fam in ("cjk_legacy", "cjk_unicode"):
        text = "".join(_texts(case))
        fails += api_cjk(case["cmap"], case["coll"], case["enc"], text)
    # de-duplicate keys, keep the first detail
    seen = set()
    uniq = []
    for k, d in fails:
        if k not in seen:
            seen.add(k)
            uniq.append((k, d))
    return uniq, stats


def tag_body(data: bytes) -> Tuple[Optional[str], Optional[Tuple[str, str]]]:
    """Character data that extract_text_to_fp(output_type='tag') writes between <page ...> and </page>."""
    import html

    from pdfminer.high_level import extract_text_to_fp

    out = io.BytesIO()
    try:
        extract_text_to_fp(io.BytesIO(data), out, output_type="tag", codec="utf-8", laparams=None)
    except Exception as e:  # noqa: BLE001
        return None, (_exc_key(e), "extract_text_to_fp(output_type='tag'): %r" % (e,))
    raw = out.getvalue()
    head_end = raw.find(b">")
    if not raw.startswith(b"<page ") or head_end < 0 or not raw.endswith(b"</page>\n") or raw.count(b"<page ") != 1:
        return None, ("tag_frame", "unexpected frame of the tag output: %r" % (raw[:120],))
    try:
        body = raw[head_end + 1:-len(b"</page>\n")].decode("utf-8")
    except UnicodeDecodeError as e:
        return None, ("tag_codec", "tag output is not UTF-8: %r" % (e,))
    return html.unescape(body), None


def check_tag(case: Dict[str, Any], data: bytes, exp: List[Dict[str, Any]]) -> List[Tuple[str, str]]:
    """TagExtractor (pdf2txt -t tag) writes, for every string operand, the Unicode text of its codes in order; a
    code without Unicode value contributes nothing and does not end the operand (rule read off the unchanged
    TagExtractor.render_string: PDFUnicodeNotDefined is skipped per glyph); the text is SGML-escaped."""
    want = ""
    for e in exp:
        if e["opt"]:
            continue
        if e.get("text") is None:
            return []  # a glyph whose text the reference leaves open (usecmap, ambiguous TrueType glyph)
        if e.get("cid") is not None and e["text"] == cid_text(e["cid"]):
            continue   # no Unicode value: nothing is written
        want += e["text"]
    got, err = tag_body(data)
    if err is not None:
        return [(err[0], "%s: %s" % (_brief(case), err[1]))]
    if got != want:
        k = 0
        while k < min(len(got), len(want)) and got[k] == want[k]:
            k += 1
        return [("tag_text:" + case["fam"], "%s: tag output differs from the expected text at character %d of %d "
                 "(got %d characters): ...%r, expected ...%r" % (_brief(case), k, len(want), len(got), got[k:k + 12], want[k:k + 12]))]
    return []


def check_shared(case: Dict[str, Any]) -> Tuple[List[Tuple[str, str]], Dict[str, Any]]:
    """Several Type0 fonts (different Encoding / ToUnicode) over one shared descendant CIDFont object, font caching
    on: every line must be segmented, mapped and advanced as ITS font's Encoding CMap and ToUnicode prescribe."""
    fs = case["fs"]
    cidfont: Dict[str, Any] = {"ros": ["Adobe", "Identity", 0], "cidsub": case.get("cidsub", "CIDFontType2")}
    for k in ("W", "DW", "W2", "DW2", "DW_ref", "DW2_ref", "MissingWidth"):
        if case.get(k) is not None:
            cidfont[k] = case[k]
    wmap = eval_w(case.get("W"))
    w2map = eval_w2(case.get("W2"))
    dw = fnum(case["DW"]) if case.get("DW") is not None else 1000.0
    dw2 = [fnum(v) for v in case["DW2"]] if case.get("DW2") is not None else [880.0, -1000.0]

    def glyph_fn(f: Dict[str, Any]):
        umap = TU.evaluate(f["tounicode"]) if f.get("tounicode") is not None else None
        nocheck = bool(f.get("tounicode") and f["tounicode"].get("usecmap"))
        vertical = f["vertical"]

        def glyph(code: int) -> Dict[str, Any]:
            cid = code
            if umap is None:
                text: Optional[str] = cid_text(cid)
            elif cid in umap:
                text = umap[cid]
            else:
                text = None if nocheck else cid_text(cid)
            if vertical:
                if cid in w2map:
                    w1, vx, _vy = w2map[cid]
                    return {"cid": cid, "text": text, "w": w1, "vx": vx}
                return {"cid": cid, "text": text, "w": dw2[1], "vx": wmap.get(cid, dw) / 2.0}
            return {"cid": cid, "text": text, "w": wmap.get(cid, dw)}
        return glyph

    fonts = case["fonts"]
    gfs = [glyph_fn(f) for f in fonts]
    lines = sorted(case["lines"], key=lambda ln: ln.get("page", 0))  # stable: document order
    exps = []
    for ln in lines:
        f = fonts[ln["font"]]
        exps.append(model([ln], fs, f["vertical"], split_fixed(f["nbytes"]), gfs[ln["font"]], case.get("ts"), f["nbytes"]))
    total = sum(len(e) for e in exps)
    stats = {"glyphs": total}
    data = build_pdf_shared(cidfont, fonts, lines, fs, case.get("ts"))
    npages = 1 + max(ln.get("page", 0) for ln in lines)
    obs, err = observe(data, caching=True, npages=npages)
    if err is not None:
        return [(err[0], "%s: %s" % (_brief(case), err[1]))], stats
    assert obs is not None
    fails: List[Tuple[str, str]] = []
    pos = 0
    for k, (ln, exp) in enumerate(zip(lines, exps)):
        f = fonts[ln["font"]]
        part = obs[pos:pos + len(exp)]
        pos += len(exp)
        r = compare("shared", f["vertical"], fs, exp, part)
        if r:
            fails += [(key, "[shared] line %d (page %d) uses font F%d = %s/%s of %s: %s"
                       % (k, ln.get("page", 0), ln["font"] + 1, f["cmap"], "ToUnicode" if f.get("tounicode") else "no ToUnicode",
                          [g["cmap"] for g in fonts], d)) for key, d in r]
            break
    if len(obs) != total and not any(k.startswith("glyph_count") for k, _ in fails):
        fails.append(("glyph_count:shared", "[shared] fonts %s: expected %d glyphs in the document, observed %d"
                      % ([g["cmap"] for g in fonts], total, len(obs))))
    seen = set()
    uniq = []
    for key, d in fails:
        if key not in seen:
            seen.add(key)
            uniq.append((key, d))
    return uniq, stats


def _texts(case: Dict[str, Any]) -> List[str]:
    out = []
    for ln in case["lines"]:
        for op in ln["shows"]:
            if op[0] == "Tj":
                out.append(op[1])
            else:
                out += [it for it in op[1] if isinstance(it, str)]
    return out


def _brief(case: Dict[str, Any]) -> str:
    if case["fam"] == "shared":
        return "[shared %s]" % "+".join(f["cmap"] for f in case["fonts"])
    return "[%s %s]" % (case["fam"], case.get("cmap"))


def _compare_tagged_tu(case, exp, obs, vertical, fs) -> List[Tuple[str, str]]:
    """ToUnicode + non-identity CMap.  Everything except the text is checked generically; a text deviation gets
    the tag only if it is exactly 'ToUnicode looked up by CID instead of by character code'."""
    fam = "tu_nonid"
    notext = [dict(e, text=None) for e in exp]
    fails = [(k, "%s: %s" % (_brief(case), d)) for k, d in compare(fam, vertical, fs, notext, obs)]
    if fails:
        return fails
    umap = TU.evaluate(case["tounicode"])
    wrong = []
    for e, o in zip(exp, obs):
        if o["text"] != e["text"]:
            wrong.append((e, o))
    if not wrong:
        return []
    for e, o in wrong:
        by_cid = umap.get(o["cid"], cid_text(o["cid"]))
        if o["text"] != by_cid:
            return [("text:" + fam, "%s: code %s cid=%r: text %r, expected %r (and not explained by a CID-indexed lookup, "
                     "which would give %r)" % (_brief(case), e["code"], o["cid"], o["text"], e["text"], by_cid))]
    e, o = wrong[0]
    return [(TAG_TU_NONID, "%s: code %s is CID %r; ToUnicode maps the *code* to %r but the text is %r "
             "(ToUnicode indexed by CID)" % (_brief(case), e["code"], o["cid"], e["text"], o["text"]))]


def _compare_tagged_ws1(case, exp, obs, vertical, fs) -> List[Tuple[str, str]]:
    """Composite font whose CMap makes 32 a ONE-byte code, Tw != 0, code 32 shown: word spacing applies (9.3.3).
    A deviation gets the tag only if the page is exactly what results from never adding Tw."""
    fails = [(k, "%s: %s" % (_brief(case), d)) for k, d in compare("ws1", vertical, fs, exp, obs)]
    if not fails:
        return []
    alt = realise(case, apply_ws=False)[3]
    if not compare("ws1", vertical, fs, alt, obs):
        return [(TAG_WS1, "%s Tw=%s: %s (the page is exactly what results from never adding the word spacing after the "
                 "one-byte code 32)" % (_brief(case), case["ts"].get("Tw"), fails[0][1]))]
    return fails


def _compare_tagged_vdef(case, exp, obs, fs) -> List[Tuple[str, str]]:
    """Vertical font with DW/W != 1000 and glyphs without W2 entry: default vx = w0/2 (9.7.4.3)."""
    fam = "vdef"
    fails = [(k, "%s: %s" % (_brief(case), d)) for k, d in compare(fam, True, fs, exp, obs, check_vx=False)]
    if fails:
        return fails
    f = fnum(fs)
    for e, o in zip(exp, obs):
        x0 = e["pen"][0] - e["a"] * e["vx"] / 1000.0 * f
        if not close(o["bbox"][0], x0):
            half_em = e["pen"][0] - e["a"] * 0.5 * f
            if close(o["bbox"][0], half_em):
                return [(TAG_VDEF, "%s: cid %r has w0=%r and no W2 entry: box left edge %r, expected pen_x - (w0/2)/1000*Tfs = %r "
                         "(half an em was used instead of w0/2)" % (_brief(case), o["cid"], 2 * e["vx"], o["bbox"][0], x0))]
            return [("vertical_origin_x:" + fam, "%s: cid %r: box left edge %r, expected %r" % (_brief(case), o["cid"], o["bbox"][0], x0))]
    return []


# --------------------------------------------------------------------------
# generators
# --------------------------------------------------------------------------
FS_CHOICES: List[Num] = [1, 2, 8, 10, 12, 16, "0.5", "7.25", 24]
SCALES: List[Num] = [1, 1, 1, 2, "0.5", 3]


def gen_tm(rng: random.Random) -> List[Num]:
    return [rng.choice(SCALES), 0, 0, rng.choice(SCALES), rng.randrange(0, 500), rng.randrange(0, 780)]


def gen_adjust(rng: random.Random) -> Num:
    return rng.choice([-500, -120, 50, 250, 1000, "62.5", "-31.25", 0])


def _rand_bytes(rng: random.Random, n: int) -> bytes:
    pool = [0x00, 0x20, 0x28, 0x29, 0x5C, 0x0A, 0x0D, 0xFF, 0x80, 0x7F, 0x41]
    return bytes(rng.choice(pool) if rng.random() < 0.3 else rng.randrange(256) for _ in range(n))


def gen_ts(rng: random.Random, p: float = 0.5) -> Optional[Dict[str, Any]]:
    """A non-trivial text state: character spacing, word spacing, horizontal scaling."""
    if rng.random() >= p:
        return None
    ts: Dict[str, Any] = {}
    if rng.random() < 0.7:
        ts["Tc"] = rng.choice([0, "0.5", "-0.25", 2, "1.5", -1])
    if rng.random() < 0.7:
        ts["Tw"] = rng.choice([3, "-1.5", 10, "2.25", 0, 7])
    if rng.random() < 0.6:
        ts["Tz"] = rng.choice([100, 50, 200, 75, 125, "62.5"])
    return ts or None


def _map_strings(lines: List[Dict[str, Any]], fn) -> None:
    for ln in lines:
        for op in ln["shows"]:
            if op[0] == "Tj":
                op[1] = fn(bytes(op[1]))
            else:
                op[1] = [fn(bytes(it)) if isinstance(it, (bytes, bytearray)) else it for it in op[1]]


def _prepend(lines: List[Dict[str, Any]], head: bytes) -> None:
    """Put one more code in front of the first string of every line (so that glyphs follow it)."""
    for ln in lines:
        op = ln["shows"][0]
        if op[0] == "Tj":
            op[1] = head + bytes(op[1])
        else:
            for k, it in enumerate(op[1]):
                if isinstance(it, (bytes, bytearray)):
                    op[1][k] = head + bytes(it)
                    break


def apply_ts(case_ts: Optional[Dict[str, Any]], lines: List[Dict[str, Any]], nbytes: int, keep_space: bool = False) -> None:
    """With Tw != 0: two-byte fonts get the code <0020> (CID 32, no word spacing: it is not a single-byte code);
    one-byte composite fonts lose the code 32 (that combination is the tagged family ws1)."""
    if not case_ts or fnum(case_ts.get("Tw", 0)) == 0:
        return
    if nbytes == 2:
        _prepend(lines, b"\x00\x20")
    elif not keep_space:
        _map_strings(lines, lambda b: b.replace(b"\x20", b"\x21"))


def gen_ident(rng: random.Random, only_onebyte: bool = False) -> Dict[str, Any]:
    name, form, nbytes, vertical = rng.choice(IDENT_KINDS[6:] if only_onebyte else IDENT_KINDS)
    lines = []
    for _ in range(rng.randint(1, 4)):
        shows: List[Any] = []
        nshow = rng.randint(1, 3)
        for k in range(nshow):
            last = k == nshow - 1
            r = rng.random()
            if r < 0.08:
                n = 0
            elif nbytes == 2 and last and r < 0.45:
                n = 2 * rng.randint(0, 10) + 1  # odd length: only as the last string of a line
            else:
                n = nbytes * rng.randint(1, 12)
            if nbytes == 2 and n % 2 and not last:
                n += 1
            s = _rand_bytes(rng, n)
            if rng.random() < 0.3 and not (n % nbytes):
                # a TJ array: every element string is decoded on its own
                cut = nbytes * rng.randint(0, n // nbytes)
                shows.append(["TJ", [s[:cut], gen_adjust(rng), s[cut:]], rng.randrange(4)])
            else:
                shows.append(["Tj", s, rng.randrange(2)])
        lines.append({"tm": gen_tm(rng), "shows": shows})
    case = {"fam": "ident", "cmap": name, "enc_form": form, "nbytes": nbytes, "vertical": vertical,
            "cidsub": rng.choice(["CIDFontType2", "CIDFontType0"]), "cidtogid": rng.random() < 0.3,
            "fs": rng.choice(FS_CHOICES), "lines": lines}
    if only_onebyte:
        return case
    ts = gen_ts(rng)
    if ts:
        case["ts"] = ts
        apply_ts(ts, lines, nbytes)
    return case


def gen_ws1(rng: random.Random) -> Dict[str, Any]:
    """One-byte identity font, Tw != 0 and the one-byte code 32 shown (TAGGED, see TAG_WS1)."""
    case = gen_ident(rng, only_onebyte=True)
    case["fam"] = "ws1"
    ts = gen_ts(rng, 1.0) or {}
    ts["Tw"] = rng.choice([3, "-1.5", 10, "2.25", 7])
    case["ts"] = ts
    _prepend(case["lines"], b"\x20")
    return case


WITNESS_WS1 = {"fam": "ws1", "cmap": "OneByteIdentityH", "enc_form": "stream", "nbytes": 1, "vertical": False,
               "cidsub": "CIDFontType2", "cidtogid": False, "fs": 10, "ts": {"Tw": 10},
               "lines": [{"tm": [1, 0, 0, 1, 100, 700], "shows": [["Tj", b" A", 1]]}]}


# ---- ToUnicode programs ---------------------------------------------------
def _rand_bmp(rng: random.Random) -> int:
    r = rng.random()
    if r < 0.25:
        return rng.randrange(0x20, 0x7F)
    if r < 0.4:
        return rng.randrange(0xA0, 0x250)
    if r < 0.6:
        return rng.randrange(0x4E00, 0x9FA6)
    if r < 0.7:
        return rng.randrange(0xE000, 0xF900)
    if r < 0.72:
        return rng.choice([0x0000, 0x0009, 0x000A, 0xFFFD, 0xFEFF, 0xFFFE, 0x00AD, 0x200B])
    while True:
        c = rng.randrange(0x100, 0x10000)
        if not (0xD800 <= c < 0xE000):
            return c


def _rand_astral(rng: random.Random) -> int:
    return rng.choice([rng.randrange(0x10000, 0x10100), rng.randrange(0x1F600, 0x1F650), rng.randrange(0x20000, 0x2A6DE),
                       0x10FFFF, 0x10000, rng.randrange(0x10000, 0x110000)])


def _rand_dst(rng: random.Random) -> bytes:
    r = rng.random()
    if r < 0.6:
        cps = [_rand_bmp(rng)]
    elif r < 0.8:
        cps = [_rand_astral(rng)]
    else:
        cps = [(_rand_astral(rng) if rng.random() < 0.25 else _rand_bmp(rng)) for _ in range(rng.randint(2, 4))]
    return "".join(map(chr, cps)).encode("utf-16-be")


def _rand_inc_dst(rng: random.Random, n: int) -> bytes:
    """A destination whose last byte can be incremented n-1 times without overflow and stays valid UTF-16."""
    r = rng.random()
    prefix = ""
    if r > 0.7:
        prefix = "".join(chr(_rand_astral(rng) if rng.random() < 0.2 else _rand_bmp(rng)) for _ in range(rng.randint(1, 3)))
    lowmax = 256 - n
    low = rng.choice([0, lowmax, rng.randint(0, lowmax)])
    if rng.random() < 0.25:
        # last unit is a low surrogate DC00..DFFF: incrementing its low byte keeps it a low surrogate
        hi_unit = 0xD800 + rng.randrange(0x400)
        lo_unit = ((0xDC + rng.randrange(4)) << 8) | low
        last = hi_unit.to_bytes(2, "big") + lo_unit.to_bytes(2, "big")
    else:
        while True:
            hb = rng.choice([0x00, 0x30, 0x4E, 0xFF, rng.randrange(256)])
            if not (0xD8 <= hb <= 0xDF):
                break
        last = bytes([hb, low])
    return prefix.encode("utf-16-be") + last


def gen_prog(rng: random.Random, nbytes: int) -> Dict[str, Any]:
    top = 1 << (8 * nbytes)
    used: set = set()
    blocks: List[Any] = []
    budget = 400 if nbytes == 2 else 200

    def free_run(lo: int, n: int) -> bool:
        return lo >= 0 and lo + n <= top and not any((lo + i) in used for i in range(n))

    for _ in range(rng.randint(1, 6)):
        kind = rng.choice(["bfchar", "bfrange", "bfrange"])
        r = rng.random()
        nent = 100 if r < 0.03 else (1 if r < 0.2 else rng.randint(2, 12))
        entries: List[Any] = []
        for _e in range(nent):
            if len(used) >= budget:
                break
            if kind == "bfchar":
                for _try in range(20):
                    src = rng.randrange(top) if rng.random() < 0.7 else rng.choice([0, top - 1, 0x20, 0xFF, top // 2])
                    if src not in used:
                        used.add(src)
                        entries.append([src, _rand_dst(rng)])
                        break
            else:
                array_form = rng.random() < 0.4
                if array_form:
                    n = rng.randint(1, 12)
                else:
                    n = rng.choice([1, 2, 3, rng.randint(1, 40), rng.randint(1, 40), 256 if nbytes == 2 else 16])
                if nbytes == 1:
                    n = min(n, 40)
                for _try in range(20):
                    if nbytes == 2 and rng.random() < 0.4:
                        # cross a low-byte boundary of the source code
                        lo = rng.randrange(1, 256) * 256 - rng.randint(1, max(1, n - 1)) if n > 1 else rng.randrange(top)
                    else:
                        lo = rng.randrange(top - n + 1)
                    if free_run(lo, n):
                        used.update(range(lo, lo + n))
                        if array_form:
                            entries.append([lo, lo + n - 1, [_rand_dst(rng) for _ in range(n)]])
                        else:
                            entries.append([lo, lo + n - 1, _rand_inc_dst(rng, n)])
                        break
        if entries:
            blocks.append([kind, entries])
    if not blocks:
        blocks.append(["bfchar", [[1, "A".encode("utf-16-be")]]])
    r = rng.random()
    header = "full" if r < 0.6 else ("min" if r < 0.8 else "bare")
    usecmap = None
    if header != "bare" and rng.random() < 0.12:
        usecmap = rng.choice(["Identity-H", "Adobe-Identity-UCS2", "Adobe-Japan1-UCS2"])
    return {"nbytes": nbytes, "header": header, "usecmap": usecmap, "style": rng.randrange(128), "blocks": blocks}


def _chunk_codes(rng: random.Random, codes: List[int], nbytes: int, per_line: int = 40) -> List[Dict[str, Any]]:
    lines = []
    i = 0
    while i < len(codes):
        shows: List[Any] = []
        left = per_line
        while left > 0 and i < len(codes):
            n = min(rng.randint(1, 16), left, len(codes) - i)
            s = b"".join(c.to_bytes(nbytes, "big") for c in codes[i:i + n])
            i += n
            left -= n
            if rng.random() < 0.25 and n > 1:
                cut = nbytes * rng.randint(1, n - 1)
                shows.append(["TJ", [s[:cut], gen_adjust(rng), s[cut:]], rng.randrange(4)])
            else:
                shows.append(["Tj", s, rng.randrange(2)])
        lines.append({"tm": gen_tm(rng), "shows": shows})
    return lines


def gen_tounicode(rng: random.Random) -> Dict[str, Any]:
    r = rng.random()
    if r < 0.55:
        name, form, nbytes, vertical = "Identity-H", "name", 2, False
    elif r < 0.7:
        name, form, nbytes, vertical = "Identity-V", "name", 2, True
    elif r < 0.9:
        name, form, nbytes, vertical = "OneByteIdentityH", "stream", 1, False
    else:
        name, form, nbytes, vertical = rng.choice([("DLIdent-H", "stream", 2, False), ("OneByteIdentityV", "stream", 1, True)])
    prog = gen_prog(rng, nbytes)
    umap = TU.evaluate(prog)
    codes = list(umap)
    top = 1 << (8 * nbytes)
    if not prog["usecmap"]:
        # codes next to the mapped ones and random ones: undefined in the ToUnicode map
        extra = set()
        for c in rng.sample(codes, min(len(codes), 12)):
            extra.update([c - 1, c + 1])
        extra.update(rng.randrange(top) for _ in range(6))
        codes += [c for c in extra if 0 <= c < top and c not in umap]
    rng.shuffle(codes)
    case = {"fam": "tounicode", "cmap": name, "enc_form": form, "nbytes": nbytes, "vertical": vertical,
            "tounicode": prog, "fs": rng.choice(FS_CHOICES), "lines": _chunk_codes(rng, codes, nbytes)}
    ts = gen_ts(rng, 0.3)
    if ts:
        case["ts"] = ts
        apply_ts(ts, case["lines"], nbytes)
    return case


# ---- CJK ------------------------------------------------------------------
def _cjk_lines(rng: Optional[random.Random], text: str, per_show: int = 16, per_line: int = 32) -> List[Dict[str, Any]]:
    lines = []
    row = 0
    for i in range(0, len(text), per_line):
        seg = text[i:i + per_line]
        shows: List[Any] = []
        for j in range(0, len(seg), per_show):
            part = seg[j:j + per_show]
            if rng is not None and rng.random() < 0.2 and len(part) > 1:
                cut = rng.randint(1, len(part) - 1)
                shows.append(["TJ", [part[:cut], [gen_adjust(rng)], part[cut:]], rng.randrange(4)])
            else:
                shows.append(["Tj", part, (row + j) % 2 if rng is None else rng.randrange(2)])
        lines.append({"tm": [1, 0, 0, 1, 40, 760 - 12 * (row % 60)] if rng is None else gen_tm(rng), "shows": shows})
        row += 1
    return lines


CSI_FORMS = ["", "o", "r", "ro", "d", "do", "dr", "dro"]


def make_cjk_case(cm: Dict[str, Any], text: str, rng: Optional[random.Random], fs: Num = 10, variant: int = 0) -> Dict[str, Any]:
    case = {"fam": cm["fam"], "cmap": cm["cmap"], "enc": cm["enc"], "coll": cm["coll"],
            "cidsub": "CIDFontType0" if rng is None or rng.random() < 0.5 else "CIDFontType2",
            "fs": fs, "lines": _cjk_lines(rng, text)}
    csi = CSI_FORMS[variant % 8] if rng is None else rng.choice(CSI_FORMS)
    if csi:
        case["csi"] = csi
    return case


def gen_cjk_mixed(rng: random.Random, cm: Dict[str, Any]) -> Dict[str, Any]:
    dom = domain(cm["dom"], tuple(cm["classes"]))
    n = rng.randint(8, 72)
    mix = ALNUM
    out = []
    for _ in range(n):
        r = rng.random()
        if r < 0.2:
            out.append(rng.choice(mix))
        else:
            out.append(rng.choice(dom))
    case = make_cjk_case(cm, "".join(out), rng, rng.choice(FS_CHOICES))
    case["tagrun"] = True  # also read through extract_text_to_fp(output_type="tag")
    return case


def gen_tu_nonid(rng: random.Random) -> Dict[str, Any]:
    cms = [c for c in cjk_cmaps() if c["fam"] == "cjk_legacy"]
    cm = rng.choice(cms)
    dom = domain(cm["dom"], tuple(cm["classes"]))
    chars = [c for c in rng.sample(dom, 24) if len(c.encode(cm["enc"])) == 2]
    chars = list(dict.fromkeys(chars))[: rng.randint(1, 16)]
    entries = []
    for ch in chars:
        code = int.from_bytes(ch.encode(cm["enc"]), "big")
        dst = rng.choice([ch, chr(0xE000 + (code & 0xFFF)), ch + "́"])
        entries.append([code, dst.encode("utf-16-be")])
    prog = {"nbytes": 2, "header": "full", "usecmap": None, "style": rng.randrange(2), "blocks": [["bfchar", entries]]}
    case = make_cjk_case(cm, "".join(chars), rng, rng.choice(FS_CHOICES))
    case["fam"] = "tu_nonid"
    case["tounicode"] = prog
    return case


WITNESS_TU_NONID = {
    "fam": "tu_nonid", "cmap": "90ms-RKSJ-H", "enc": "shift_jis", "coll": "Japan1", "cidsub": "CIDFontType0", "fs": 10,
    "lines": [{"tm": [1, 0, 0, 1, 100, 700], "shows": [["Tj", "あ", 1]]}],
    "tounicode": {"nbytes": 2, "header": "full", "usecmap": None, "style": 1,
                  "blocks": [["bfchar", [[0x82A0, "あ".encode("utf-16-be")]]]]},
}


# ---- TrueType -------------------------------------------------------------
def gen_ttf_spec(rng: random.Random) -> Tuple[Dict[str, Any], List[int]]:
    """-> (spec, interesting glyph ids)."""
    used_g: set = {0}
    interesting: List[int] = []

    def fresh_gid_run(n: int) -> int:
        for _ in range(200):
            g0 = rng.choice([rng.randrange(1, 600), rng.randrange(1, 600), rng.randrange(600, 65536 - n)])
            if all((g0 + i) not in used_g for i in range(n)):
                used_g.update(range(g0, g0 + n))
                return g0
        raise RuntimeError("no free glyph run")

    def fmt0_table(lo: int, hi: int, maxg: int = 255) -> List[int]:
        gids = [0] * 256
        cs = rng.sample(range(lo, hi), rng.randint(1, min(60, hi - lo)))
        free = [g for g in range(1, maxg + 1) if g not in used_g]
        rng.shuffle(free)
        for c, g in zip(cs, free):
            gids[c] = g
            used_g.add(g)
        return gids

    def fmt4_segs(lo: int, hi: int) -> List[Dict[str, Any]]:
        segs = []
        nseg = rng.randint(1, 6)
        pts = sorted(rng.sample(range(lo, hi), 2 * nseg))
        for k in range(nseg):
            s = pts[2 * k]
            e = min(pts[2 * k + 1], s + rng.choice([0, 3, 30, 120]))
            if segs and s <= segs[-1]["e"]:
                continue
            n = e - s + 1
            if rng.random() < 0.5:
                g0 = fresh_gid_run(n)
                segs.append({"s": s, "e": e, "delta": _s16(g0 - s)})
            else:
                delta = rng.choice([0, 0, rng.randint(1, 300), -rng.randint(1, 50), 0x7FFF])
                arr = []
                g0 = fresh_gid_run(n)
                order = list(range(g0, g0 + n))
                rng.shuffle(order)
                for g in order:
                    raw = (g - delta) & 0xFFFF
                    if raw == 0 or rng.random() < 0.2:
                        arr.append(0)  # missing glyph: idDelta is NOT added to a zero entry
                    else:
                        arr.append(raw)
                if delta and 0 in arr:
                    interesting.append(delta & 0xFFFF)
                segs.append({"s": s, "e": e, "delta": delta, "arr": arr})
        if not segs:
            g0 = fresh_gid_run(1)
            segs.append({"s": lo, "e": lo, "delta": _s16(g0 - lo)})
        return segs

    layout = rng.choice(["f4", "f4", "f4_shared", "f0", "f0+f4", "f4+decoy", "f0+decoy"])
    sts: List[Dict[str, Any]] = []
    uni = rng.choice([(3, 1), (0, 3), (0, 0), (0, 4)])
    if layout == "f4":
        sts.append({"pid": uni[0], "eid": uni[1], "fmt": 4, "segs": fmt4_segs(0x20, 0xFFF0)})
    elif layout == "f4_shared":
        sts.append({"pid": 3, "eid": 1, "fmt": 4, "segs": fmt4_segs(0x20, 0xFFF0)})
        sts.append({"pid": 0, "eid": 3, "same_as": 0})
    elif layout == "f0":
        sts.append({"pid": uni[0], "eid": uni[1], "fmt": 0, "gids": fmt0_table(0x20, 0x100)})
    elif layout == "f0+f4":
        sts.append({"pid": 0, "eid": 3, "fmt": 0, "gids": fmt0_table(0x20, 0x100)})
        sts.append({"pid": 3, "eid": 1, "fmt": 4, "segs": fmt4_segs(0x100, 0xFFF0)})
    elif layout == "f4+decoy":
        sts.append({"pid": uni[0], "eid": uni[1], "fmt": 4, "segs": fmt4_segs(0x20, 0xFFF0)})
        sts.append({"pid": 1, "eid": 0, "fmt": 0, "gids": [rng.randrange(1, 256) for _ in range(256)]})
    else:
        sts.append({"pid": uni[0], "eid": uni[1], "fmt": 0, "gids": fmt0_table(0x20, 0x100)})
        sts.append({"pid": 1, "eid": 0, "fmt": 0, "gids": [rng.randrange(1, 256) for _ in range(256)]})
    extra = rng.sample(["head", "hhea", "maxp", "glyf", "loca", "OS/2", "post", "name", "hmtx", "cvt "], rng.randint(0, 6))
    return {"subtables": sts, "extra_tables": extra}, interesting


def _s16(v: int) -> int:
    v &= 0xFFFF
    return v - 0x10000 if v >= 0x8000 else v


def _strip_surrogates(spec: Dict[str, Any]) -> None:
    """Keep surrogate code points (and U+FFFF) out of the generated segments."""
    for st in spec["subtables"]:
        if st.get("fmt") != 4:
            continue
        keep = []
        for s in st["segs"]:
            if s["e"] < 0xD800 or s["s"] > 0xDFFF:
                keep.append(s)
        st["segs"] = keep or [{"s": 0x41, "e": 0x41, "delta": 0}]


def gen_ttf(rng: random.Random) -> Dict[str, Any]:
    while True:
        spec, interesting = gen_ttf_spec(rng)
        _strip_surrogates(spec)
        try:
            c2g = ttf07.char2gid(spec)
            break
        except ValueError:
            continue    # two Unicode subtables that disagree on a character: ambiguous, draw another font
    gids = sorted(set(c2g.values()))
    if len(gids) > 150:
        gids = rng.sample(gids, 150)
    near = set()
    for g in rng.sample(gids, min(len(gids), 10)):
        near.update([g - 1, g + 1])
    near.update(interesting)
    near.update(rng.randrange(1, 65536) for _ in range(4))
    codes = gids + [g for g in near if 0 < g < 65536 and g not in c2g.values()]
    rng.shuffle(codes)
    case = {"fam": "ttf", "cmap": "Identity-H", "enc_form": "name", "nbytes": 2, "vertical": False,
            "cidsub": "CIDFontType2", "cidtogid": rng.random() < 0.5, "ttf": spec, "ttf_flate": rng.random() < 0.5,
            "fs": rng.choice(FS_CHOICES), "lines": _chunk_codes(rng, codes, 2)}
    csi = rng.choice(CSI_FORMS)
    if csi:
        case["csi"] = csi
    return case


# ---- W / DW / W2 / DW2 ------------------------------------------------------
WIDTHS: List[Num] = [0, 250, 500, 600, 1000, 1500, "333.5", "722.25", 2000, 1, 999]


def _rw(rng: random.Random) -> Num:
    return rng.choice(WIDTHS) if rng.random() < 0.7 else rng.randrange(0, 2001)


def gen_w(rng: random.Random) -> Tuple[Dict[str, Any], List[int]]:
    m: Dict[int, Num] = {}
    items: List[Dict[str, Any]] = []
    cids: List[int] = []
    ranges: List[Tuple[int, int, Num]] = []
    for _ in range(rng.randint(1, 7)):
        ind = {"ic": rng.random() < 0.12, "iw": rng.random() < 0.12, "ia": rng.random() < 0.15}
        r = rng.random()
        if r < 0.2 and m:
            # overlap an earlier entry, agreeing on the shared CIDs
            c = rng.choice(list(m))
            n = rng.randint(1, 6)
            ws = [m.get(c + i, None) for i in range(n)]
            ws = [w if w is not None else _rw(rng) for w in ws]
            it = {"t": "l", "c": c, "ws": ws}
        elif r < 0.3 and ranges:
            c1, c2, w = rng.choice(ranges)
            lo = c1 + rng.randint(0, c2 - c1)
            hi = c2 + rng.randint(0, 5)
            if any(m.get(c, w) != w for c in range(lo, hi + 1)):
                continue
            it = {"t": "r", "c1": lo, "c2": hi, "w": w}
        elif r < 0.65:
            c = rng.choice([0, 1, 32, rng.randrange(65536), rng.randrange(2000), 65535])
            n = min(rng.randint(1, 8), 65536 - c)
            if any((c + i) in m for i in range(n)):
                continue
            it = {"t": "l", "c": c, "ws": [_rw(rng) for _ in range(n)]}
        else:
            c1 = rng.choice([0, 7, rng.randrange(65536), rng.randrange(3000)])
            c2 = min(65535, c1 + rng.choice([0, 1, 5, 40, 300]))
            if any(c in m for c in range(c1, c2 + 1)):
                continue
            w = _rw(rng)
            it = {"t": "r", "c1": c1, "c2": c2, "w": w}
            ranges.append((c1, c2, w))
        it.update({k: v for k, v in ind.items() if v})
        items.append(it)
        if it["t"] == "l":
            for i, w in enumerate(it["ws"]):
                m[it["c"] + i] = w
            cids += [it["c"] - 1, it["c"], it["c"] + len(it["ws"]) - 1, it["c"] + len(it["ws"])]
            cids += [it["c"] + i for i in range(len(it["ws"]))]
        else:
            for c in range(it["c1"], it["c2"] + 1):
                m[c] = it["w"]
            cids += [it["c1"] - 1, it["c1"], it["c2"], it["c2"] + 1, (it["c1"] + it["c2"]) // 2]
    w: Dict[str, Any] = {"items": items, "ref": rng.random() < 0.2}
    if rng.random() < 0.3:
        # a range entry that ends at the last CID 65535 (or, as a control, at 65534), width unlike any DW
        c2 = rng.choice([65535, 65535, 65534])
        c1 = c2 - rng.choice([0, 1, 7, 200])
        if not any(c in m for c in range(c1, 65536)):
            items.insert(rng.randint(0, len(items)), {"t": "r", "c1": c1, "c2": c2, "w": rng.choice([777, "123.5", 1250])})
            w["top"] = c2
            cids += [c1 - 1, c1, 65534, 65535]
    return w, [c for c in cids if 0 <= c < 65536]


def gen_w2(rng: random.Random) -> Tuple[Dict[str, Any], List[int]]:
    m: Dict[int, Any] = {}
    items: List[Dict[str, Any]] = []
    cids: List[int] = []

    def metric() -> List[Num]:
        return [rng.choice([-1000, -500, -1200, "-750.5", -1, 0, -2000, 400]), rng.choice([500, 250, 0, 440, "300.5", 1000, -100]),
                rng.choice([880, 1000, 0, 700, "812.5", -120])]

    for _ in range(rng.randint(1, 6)):
        ind = {"ic": rng.random() < 0.12, "iw": rng.random() < 0.12, "ia": rng.random() < 0.15}
        r = rng.random()
        if r < 0.15 and m:
            c = rng.choice(list(m))
            n = rng.randint(1, 4)
            ms = [m.get(c + i) or metric() for i in range(n)]
            it: Dict[str, Any] = {"t": "l", "c": c, "ws": None, "ms": ms}
        elif r < 0.6:
            c = rng.choice([0, 1, rng.randrange(65536), rng.randrange(2000)])
            n = min(rng.randint(1, 6), 65536 - c)
            if any((c + i) in m for i in range(n)):
                continue
            it = {"t": "l", "c": c, "ms": [metric() for _ in range(n)]}
        else:
            c1 = rng.choice([0, 9, rng.randrange(65536), rng.randrange(3000)])
            c2 = min(65535, c1 + rng.choice([0, 1, 5, 40, 300]))
            if any(c in m for c in range(c1, c2 + 1)):
                continue
            w1, vx, vy = metric()
            it = {"t": "r", "c1": c1, "c2": c2, "w1": w1, "vx": vx, "vy": vy}
        it.pop("ws", None)
        it.update({k: v for k, v in ind.items() if v})
        items.append(it)
        if it["t"] == "l":
            for i, mm in enumerate(it["ms"]):
                m[it["c"] + i] = mm
            cids += [it["c"] - 1, it["c"] + len(it["ms"])] + [it["c"] + i for i in range(len(it["ms"]))]
        else:
            for c in range(it["c1"], it["c2"] + 1):
                m[c] = [it["w1"], it["vx"], it["vy"]]
            cids += [it["c1"] - 1, it["c1"], it["c2"], it["c2"] + 1, (it["c1"] + it["c2"]) // 2]
    w2: Dict[str, Any] = {"items": items, "ref": rng.random() < 0.2}
    if rng.random() < 0.3:
        c2 = rng.choice([65535, 65535, 65534])
        c1 = c2 - rng.choice([0, 1, 7, 200])
        if not any(c in m for c in range(c1, 65536)):
            items.insert(rng.randint(0, len(items)), {"t": "r", "c1": c1, "c2": c2, "w1": rng.choice([-777, "-123.5", -1250]),
                                                      "vx": rng.choice([400, 250]), "vy": rng.choice([800, 900])})
            w2["top"] = c2
            cids += [c1 - 1, c1, 65534, 65535]
    return w2, [c for c in cids if 0 <= c < 65536]


def _top_cids(case: Dict[str, Any]) -> List[int]:
    """<FFFE> and <FFFF> are always shown when a W / W2 range entry ends up there."""
    return [65534, 65535] if any((case.get(k) or {}).get("top") for k in ("W", "W2")) else []


def gen_adv(rng: random.Random, vertical: bool) -> Dict[str, Any]:
    case: Dict[str, Any] = {"fam": "adv_v" if vertical else "adv_h", "cmap": "Identity-V" if vertical else "Identity-H",
                            "enc_form": "name", "nbytes": 2, "vertical": vertical,
                            "cidsub": rng.choice(["CIDFontType2", "CIDFontType0"]), "fs": rng.choice(FS_CHOICES)}
    cids: List[int] = []
    if vertical:
        if rng.random() < 0.85:
            case["W2"], cids = gen_w2(rng)
        if rng.random() < 0.6:
            case["DW2"] = [rng.choice([880, 1000, 0, "750.5"]), rng.choice([-1000, -500, -1100, "-620.5", 0])]
            case["DW2_ref"] = rng.random() < 0.2
    else:
        if rng.random() < 0.9:
            case["W"], cids = gen_w(rng)
        if rng.random() < 0.6:
            case["DW"] = rng.choice([1000, 0, 0, 500, 600, "437.5", 2000, 1, 10, "0.5"])
            case["DW_ref"] = rng.random() < 0.2
        if rng.random() < 0.2:
            # vertical metrics in a horizontal font are not used (WMode 0)
            case["W2"], _ = gen_w2(rng)
            case["DW2"] = [880, -500]
    if rng.random() < 0.5:
        # a descriptor entry for simple fonts: never a source of CIDFont widths (those are W / DW, DW2[1])
        case["MissingWidth"] = rng.choice([500, 250, 600, 1000, 333])
    cids = list(dict.fromkeys(cids))
    if len(cids) > 60:
        cids = rng.sample(cids, 60)
    cids += [rng.randrange(65536) for _ in range(rng.randint(1, 6))]
    cids = list(dict.fromkeys(cids + _top_cids(case)))
    rng.shuffle(cids)
    case["lines"] = _chunk_codes(rng, cids, 2, per_line=rng.choice([5, 12, 40]))
    ts = gen_ts(rng, 0.6)
    if ts:
        case["ts"] = ts
        apply_ts(ts, case["lines"], 2)
    return case


SHARED_KINDS = [
    ("Identity-H", "name", 2, False), ("Identity-V", "name", 2, True), ("OneByteIdentityH", "stream", 1, False),
    ("OneByteIdentityV", "stream", 1, True), ("DLIdent-H", "stream", 2, False), ("DLIdent-V", "stream", 2, True),
]


def gen_shared(rng: random.Random) -> Dict[str, Any]:
    """2-3 Type0 fonts that differ in Encoding and/or ToUnicode and reference the same indirect CIDFont."""
    n = rng.choice([2, 2, 3])
    if rng.random() < 0.25:
        # same Encoding twice, told apart only by their ToUnicode maps
        k0 = rng.choice(SHARED_KINDS)
        kinds = [k0, k0] + ([rng.choice(SHARED_KINDS)] if n == 3 else [])
        need_tu = {0, 1}
    else:
        kinds = rng.sample(SHARED_KINDS, n)
        need_tu = set()
    fonts = []
    for i, (name, form, nbytes, vertical) in enumerate(kinds):
        f: Dict[str, Any] = {"cmap": name, "enc_form": form, "nbytes": nbytes, "vertical": vertical}
        if i in need_tu or rng.random() < 0.7:
            f["tounicode"] = gen_prog(rng, nbytes)
        fonts.append(f)
    case: Dict[str, Any] = {"fam": "shared", "cidsub": rng.choice(["CIDFontType2", "CIDFontType0"]),
                            "fs": rng.choice(FS_CHOICES), "fonts": fonts}
    wc: List[int] = []
    w2c: List[int] = []
    if rng.random() < 0.8:
        case["W"], wc = gen_w(rng)
        taken = eval_w(case["W"])
        c0 = rng.randrange(1, 200)
        if not any((c0 + i) in taken for i in range(4)):
            case["W"]["items"].append({"t": "l", "c": c0, "ws": [_rw(rng) for _ in range(4)]})  # reachable by 1-byte codes
            wc += [c0, c0 + 3]
    if rng.random() < 0.7:
        case["DW"] = rng.choice([0, 500, 600, 250, 2000, "437.5"])
    if rng.random() < 0.6:
        case["W2"], w2c = gen_w2(rng)
    if rng.random() < 0.5:
        case["DW2"] = [rng.choice([880, 1000, 700]), rng.choice([-1000, -500, -800, 0])]
    if rng.random() < 0.4:
        case["MissingWidth"] = rng.choice([500, 250, 600, 1000])
    lines: List[Dict[str, Any]] = []
    for i, f in enumerate(fonts):
        nbytes = f["nbytes"]
        top = 1 << (8 * nbytes)
        codes: List[int] = []
        if f.get("tounicode") is not None:
            mapped = list(TU.evaluate(f["tounicode"]))
            codes += rng.sample(mapped, min(len(mapped), 16))
        codes += [c for c in rng.sample(wc, min(len(wc), 10)) if c < top]
        codes += [c for c in rng.sample(w2c, min(len(w2c), 6)) if c < top]
        codes += [rng.randrange(top) for _ in range(4)]
        codes += [c for c in _top_cids(case) if c < top]
        rng.shuffle(codes)
        for ln in _chunk_codes(rng, codes, nbytes, per_line=rng.choice([8, 20, 40])):
            ln["font"] = i
            lines.append(ln)
    rng.shuffle(lines)
    if rng.random() < 0.35 and len(lines) > 1:
        cut = rng.randint(1, len(lines) - 1)
        for k, ln in enumerate(lines):
            ln["page"] = 0 if k < cut else 1
    case["lines"] = lines
    ts = gen_ts(rng, 0.5)
    if ts:
        case["ts"] = ts
        for i, f in enumerate(fonts):
            apply_ts(ts, [ln for ln in lines if ln["font"] == i], f["nbytes"])
    return case


def gen_vdef(rng: random.Random) -> Dict[str, Any]:
    """Vertical identity font whose *horizontal* widths (W/DW) are not all 1000, shown glyphs mostly without W2
    entry: default position vector (w0/2, DW2[0]).  Kept as its own family (see TAG_VDEF)."""
    case: Dict[str, Any] = {"fam": "vdef", "cmap": "Identity-V", "enc_form": "name", "nbytes": 2, "vertical": True,
                            "cidsub": "CIDFontType2", "fs": rng.choice([8, 10, 16, "7.25"])}
    cids = [rng.randrange(1, 65536) for _ in range(rng.randint(1, 8))]
    if rng.random() < 0.8:
        case["DW"] = rng.choice([500, 600, 250, 2000, "437.5"])
    if rng.random() < 0.6 or "DW" not in case:
        case["W"], wc = gen_w(rng)
        cids += wc[:24]
    if rng.random() < 0.3:
        case["W2"], w2c = gen_w2(rng)
        cids += w2c[:8]
    if rng.random() < 0.3:
        case["DW2"] = [rng.choice([880, 700]), rng.choice([-1000, -800])]
    rng.shuffle(cids)
    case["lines"] = _chunk_codes(rng, cids, 2, per_line=12)
    return case


WITNESS_VDEF = {"fam": "vdef", "cmap": "Identity-V", "enc_form": "name", "nbytes": 2, "vertical": True, "cidsub": "CIDFontType2",
                "fs": 10, "DW": 600, "lines": [{"tm": [1, 0, 0, 1, 100, 700], "shows": [["Tj", b"\x00\x07", 1]]}]}


# --------------------------------------------------------------------------
# shards
# --------------------------------------------------------------------------
def minimums(tier: str) -> Dict[str, int]:
    if tier == "quick":
        return {"evaluations": 3500, "distinct": 3300, "glyphs_compared": 250000,
                "cases:ident": 600, "cases:tounicode": 800, "cases:cjk_legacy": 300, "cases:cjk_unicode": 600,
                "cases:ttf": 500, "cases:adv_h": 500, "cases:adv_v": 500, "cases:tu_nonid": 60, "cases:vdef": 30,
                "ident_odd_strings": 200, "ident_empty_strings": 300, "tu_entries:bfchar": 3500,
                "tu_entries:bfrange_inc": 2500, "tu_entries:bfrange_arr": 1800, "tu_src_carry_ranges": 700,
                "tu_surrogate_targets": 5000, "tu_multichar_targets": 3500, "tu_usecmap_programs": 30,
                "ttf_fmt4_array_segments": 350, "ttf_fmt4_array_zero_entries": 2500, "ttf_fmt0_tables": 180,
                "w_indirect_items": 300, "w2_indirect_items": 300, "w_overlap_items": 150, "w2_overlap_items": 80,
                "dw_given": 150, "dw2_given": 200, "api_cjk_chars": 50000, "cjk_mixed_cases": 500,
                "cases:shared": 200, "shared_fonts": 400, "shared_two_page_docs": 40, "shared_mixed_writing_modes": 60,
                "shared_mixed_code_lengths": 50, "shared_same_encoding_different_tounicode": 30,
                "dw_zero_with_missingwidth": 15, "dw2_zero_with_missingwidth": 12, "missingwidth_in_descriptor": 350,
                "cases:ws1": 30, "ts_cases": 800, "ts_tc_nonzero": 400, "ts_tz_not_100": 350, "ts_tz_not_100_vertical": 150,
                "ts_tw_nonzero": 450, "ts_tw_with_twobyte_cid32": 400, "ts_tw_with_twobyte_cid32_vertical": 150,
                "ts_tw_with_onebyte_code32": 30,
                "tag_runs": 1500, "tag_runs:tounicode": 700, "tag_runs:ttf": 400, "tag_operands_unmapped_then_mapped": 2500,
                "csi_indirect_cases": 1000, "csi_indirect_ordering:collection": 300, "csi_indirect_registry:collection": 300,
                "csi_indirect_dict:collection": 200, "csi_indirect_ordering:ttf": 200, "csi_indirect_registry:ttf": 200,
                "csi_indirect_dict:ttf": 200, "w_range_to_65535": 50, "w_range_to_65534": 20, "w2_range_to_65535": 60,
                "w2_range_to_65534": 25,
                "seen:cjk_cmaps": 48, "seen:ident_kinds": 8, "seen:tu_headers": 3, "seen:ttf_layouts": 10,
                "class:kana": 6000, "class:hangul": 3500, "class:ideograph": 25000}
    return {"evaluations": 60000, "distinct": 58000, "glyphs_compared": 5000000,
            "cases:ident": 12000, "cases:tounicode": 15000, "cases:cjk_legacy": 3500, "cases:cjk_unicode": 8000,
            "cases:ttf": 9000, "cases:adv_h": 9000, "cases:adv_v": 9000, "cases:tu_nonid": 400, "cases:vdef": 200,
            "ident_odd_strings": 7000, "ident_empty_strings": 9000, "tu_entries:bfchar": 100000,
            "tu_entries:bfrange_inc": 80000, "tu_entries:bfrange_arr": 55000, "tu_src_carry_ranges": 25000,
            "tu_surrogate_targets": 160000, "tu_multichar_targets": 110000, "tu_usecmap_programs": 1000,
            "ttf_fmt4_array_segments": 9000, "ttf_fmt4_array_zero_entries": 70000, "ttf_fmt0_tables": 5000,
            "w_indirect_items": 8000, "w2_indirect_items": 8000, "w_overlap_items": 5000, "w2_overlap_items": 2800,
            "dw_given": 4500, "dw2_given": 6000, "api_cjk_chars": 800000, "cjk_mixed_cases": 7000,
            "cases:shared": 3000, "shared_fonts": 6000, "shared_two_page_docs": 700, "shared_mixed_writing_modes": 1000,
            "shared_mixed_code_lengths": 900, "shared_same_encoding_different_tounicode": 500,
            "dw_zero_with_missingwidth": 350, "dw2_zero_with_missingwidth": 350, "missingwidth_in_descriptor": 7000,
            "cases:ws1": 200, "ts_cases": 10000, "ts_tc_nonzero": 5000, "ts_tz_not_100": 4500, "ts_tz_not_100_vertical": 2000,
            "ts_tw_nonzero": 5500, "ts_tw_with_twobyte_cid32": 5000, "ts_tw_with_twobyte_cid32_vertical": 2000,
            "ts_tw_with_onebyte_code32": 200,
            "tag_runs": 28000, "tag_runs:tounicode": 15000, "tag_runs:ttf": 9000, "tag_operands_unmapped_then_mapped": 60000,
            "csi_indirect_cases": 15000, "csi_indirect_ordering:collection": 4000, "csi_indirect_registry:collection": 4000,
            "csi_indirect_dict:collection": 4000, "csi_indirect_ordering:ttf": 3500, "csi_indirect_registry:ttf": 3500,
            "csi_indirect_dict:ttf": 3500, "w_range_to_65535": 1200, "w_range_to_65534": 500, "w2_range_to_65535": 1200,
            "w2_range_to_65534": 600,
            # the exhaustive part is deterministic: the sizes of the codec-defined domains summed over the 48 CMaps
            "cjk_exhaustive_chars": 636000, "class:kana": 8000, "class:hangul": 117000, "class:ideograph": 510000,
            "seen:cjk_cmaps": 48, "seen:ident_kinds": 8, "seen:tu_headers": 3, "seen:ttf_layouts": 10}


def shards(tier: str, seed: int) -> List[Dict[str, Any]]:
    out: List[Dict[str, Any]] = []
    cms = cjk_cmaps()
    if tier == "quick":
        for k in range(4):
            out.append({"kind": "rand", "fam": "ident", "n": 160, "sub": k})
        for k in range(6):
            out.append({"kind": "rand", "fam": "tounicode", "n": 150, "sub": 100 + k})
        for k in range(4):
            out.append({"kind": "rand", "fam": "ttf", "n": 140, "sub": 200 + k})
        for k in range(4):
            out.append({"kind": "rand", "fam": "adv_h", "n": 140, "sub": 300 + k})
        for k in range(4):
            out.append({"kind": "rand", "fam": "adv_v", "n": 140, "sub": 400 + k})
        out.append({"kind": "rand", "fam": "tagged", "n": 200, "sub": 500})
        for k in range(2):
            out.append({"kind": "rand", "fam": "shared", "n": 130, "sub": 550 + k})
        for k in range(0, len(cms), 4):
            out.append({"kind": "cjk", "cmaps": list(range(k, min(k + 4, len(cms)))), "sample": 400, "mixed": 12, "sub": 600 + k})
        return out
    for k in range(16):
        out.append({"kind": "rand", "fam": "ident", "n": 1000, "sub": k})
    for k in range(32):
        out.append({"kind": "rand", "fam": "tounicode", "n": 600, "sub": 100 + k})
    for k in range(16):
        out.append({"kind": "rand", "fam": "ttf", "n": 700, "sub": 200 + k})
    for k in range(16):
        out.append({"kind": "rand", "fam": "adv_h", "n": 700, "sub": 300 + k})
    for k in range(16):
        out.append({"kind": "rand", "fam": "adv_v", "n": 700, "sub": 400 + k})
    for k in range(2):
        out.append({"kind": "rand", "fam": "tagged", "n": 600, "sub": 500 + k})
    for k in range(8):
        out.append({"kind": "rand", "fam": "shared", "n": 500, "sub": 550 + k})
    for k in range(len(cms)):
        out.append({"kind": "cjk", "cmaps": [k], "sample": 0, "mixed": 150, "sub": 600 + k})
    return out


# --------------------------------------------------------------------------
def _account(case: Dict[str, Any], stats: Dict[str, Any], rec) -> None:
    fam = case["fam"]
    rec.count("cases:" + fam)
    rec.count("glyphs_compared", stats["glyphs"])
    if stats.get("tag_runs"):
        rec.count("tag_runs")
        rec.count("tag_runs:" + fam)
        if fam == "tounicode" and not case["tounicode"].get("usecmap"):
            umap = TU.evaluate(case["tounicode"])
            nb = case["nbytes"]
            for ln in case["lines"]:
                for op in ln["shows"]:
                    for it in ([op[1]] if op[0] == "Tj" else op[1]):
                        if isinstance(it, (bytes, bytearray)):
                            flags = [int.from_bytes(it[k:k + nb], "big") in umap for k in range(0, len(it) - nb + 1, nb)]
                            if False in flags and True in flags[flags.index(False):]:
                                rec.count("tag_operands_unmapped_then_mapped")
    if case.get("csi") and fam in ("cjk_legacy", "cjk_unicode", "ttf", "tu_nonid"):
        rec.count("csi_indirect_cases")
        for letter, name in (("d", "dict"), ("r", "registry"), ("o", "ordering")):
            if letter in case["csi"]:
                rec.count("csi_indirect_%s:%s" % (name, "ttf" if fam == "ttf" else "collection"))
    for key, name in (("W", "w"), ("W2", "w2")):
        top = (case.get(key) or {}).get("top")
        if top and fam in ("adv_h", "adv_v", "shared", "vdef"):
            if key == "W" and fam == "adv_v":
                continue
            rec.count("%s_range_to_%d" % (name, top))
    if fam == "ident":
        rec.see("ident_kinds", "%s/%s" % (case["cmap"], case["enc_form"]))
        for ln in case["lines"]:
            for op in ln["shows"]:
                for it in ([op[1]] if op[0] == "Tj" else op[1]):
                    if isinstance(it, (bytes, bytearray)):
                        if len(it) % case["nbytes"]:
                            rec.count("ident_odd_strings")
                        if not it:
                            rec.count("ident_empty_strings")
    if case.get("tounicode") is not None and fam == "tounicode":
        prog = case["tounicode"]
        rec.see("tu_headers", prog["header"])
        if prog["usecmap"]:
            rec.count("tu_usecmap_programs")
        rec.count("tu_blocks", len(prog["blocks"]))
        for kind, entries in prog["blocks"]:
            if len(entries) == 100:
                rec.count("tu_blocks_of_100")
            for ent in entries:
                if kind == "bfchar":
                    rec.count("tu_entries:bfchar")
                    dsts = [ent[1]]
                elif isinstance(ent[2], (bytes, bytearray)):
                    rec.count("tu_entries:bfrange_inc")
                    dsts = [ent[2]]
                    if prog["nbytes"] == 2 and (ent[0] >> 8) != (ent[1] >> 8):
                        rec.count("tu_src_carry_ranges")
                else:
                    rec.count("tu_entries:bfrange_arr")
                    dsts = list(ent[2])
                for d in dsts:
                    t = bytes(d).decode("utf-16-be")
                    if any(ord(ch) > 0xFFFF for ch in t):
                        rec.count("tu_surrogate_targets")
                    if len(t) > 1:
                        rec.count("tu_multichar_targets")
    if fam == "ttf":
        sts = case["ttf"]["subtables"]
        rec.see("ttf_layouts", "+".join("%d/%d/%s" % (s["pid"], s["eid"], "f%d" % s["fmt"] if "fmt" in s else "shared") for s in sts))
        for s in sts:
            if s.get("fmt") == 4:
                rec.count("ttf_fmt4_segments", len(s["segs"]))
                for sg in s["segs"]:
                    if "arr" in sg:
                        rec.count("ttf_fmt4_array_segments")
                        rec.count("ttf_fmt4_array_zero_entries", sum(1 for v in sg["arr"] if v == 0))
            elif s.get("fmt") == 0:
                rec.count("ttf_fmt0_tables")
    for key, name in (("W", "w"), ("W2", "w2")):
        w = case.get(key)
        if w is not None and fam in ("adv_h", "adv_v"):
            rec.count(name + "_arrays")
            if w.get("ref"):
                rec.count(name + "_array_by_reference")
            seen: set = set()
            for it in w["items"]:
                rec.count("%s_items:%s" % (name, "list" if it["t"] == "l" else "range"))
                if it.get("ic") or it.get("iw") or it.get("ia"):
                    rec.count(name + "_indirect_items")
                cs = range(it["c"], it["c"] + len(it.get("ws") or it.get("ms") or [])) if it["t"] == "l" else range(it["c1"], it["c2"] + 1)
                if any(c in seen for c in cs):
                    rec.count(name + "_overlap_items")
                seen.update(cs)
    ts = case.get("ts")
    if ts:
        tc, tw, th = ts_values(ts)
        rec.count("ts_cases")
        fonts = case["fonts"] if fam == "shared" else [case]
        if tc:
            rec.count("ts_tc_nonzero")
        if th != 1.0:
            rec.count("ts_tz_not_100")
            if any(f["vertical"] for f in fonts):
                rec.count("ts_tz_not_100_vertical")
        if tw:
            rec.count("ts_tw_nonzero")
            if any(f["nbytes"] == 2 for f in fonts):
                rec.count("ts_tw_with_twobyte_cid32")   # <0020> is put in front of every line of such a font
            if any(f["nbytes"] == 2 and f["vertical"] for f in fonts):
                rec.count("ts_tw_with_twobyte_cid32_vertical")
            if fam == "ws1":
                rec.count("ts_tw_with_onebyte_code32")
    if fam == "shared":
        rec.count("shared_fonts", len(case["fonts"]))
        rec.count("shared_fonts_with_tounicode", sum(1 for f in case["fonts"] if f.get("tounicode") is not None))
        rec.see("shared_combos", "+".join(sorted("%s%s" % (f["cmap"], "+TU" if f.get("tounicode") else "") for f in case["fonts"])))
        if len({f["vertical"] for f in case["fonts"]}) == 2:
            rec.count("shared_mixed_writing_modes")
        if len({f["nbytes"] for f in case["fonts"]}) == 2:
            rec.count("shared_mixed_code_lengths")
        if len({(f["cmap"], f["enc_form"]) for f in case["fonts"]}) < len(case["fonts"]):
            rec.count("shared_same_encoding_different_tounicode")
        if any(ln.get("page", 0) for ln in case["lines"]):
            rec.count("shared_two_page_docs")
    if case.get("MissingWidth") is not None and fam in ("adv_h", "adv_v", "shared"):
        rec.count("missingwidth_in_descriptor")
        if case.get("DW") is not None and fnum(case["DW"]) == 0 and fam in ("adv_h", "shared"):
            rec.count("dw_zero_with_missingwidth")
        if case.get("DW2") is not None and fnum(case["DW2"][1]) == 0 and fam in ("adv_v", "shared"):
            rec.count("dw2_zero_with_missingwidth")
    if fam in ("adv_h", "adv_v"):
        if case.get("DW") is not None:
            rec.count("dw_given")
            if 0 <= fnum(case["DW"]) <= 10:
                rec.count("dw_small")
        if case.get("DW2") is not None:
            rec.count("dw2_given")


def _run_case(case: Dict[str, Any], rec, extra_hash: Any = None) -> None:
    fails, stats = check_case(case)
    rec.case(chash(case), stats["glyphs"] > 0)
    _account(case, stats, rec)
    for k, d in fails:
        rec.fail(k, case, d)
    if rec.want_sample() and stats["glyphs"] > 0 and not fails:
        rec.sample({"fam": case["fam"], "cmap": case.get("cmap"), "glyphs": stats["glyphs"],
                    "case": {k: v for k, v in case.items() if k not in ("lines",)}, "first_line": case["lines"][0]})


def run_shard(spec: Dict[str, Any], rec) -> None:
    kind = spec["kind"]
    rng = random.Random("C07/%d/%d" % (spec["seed"], spec["sub"]))
    if kind == "rand":
        fam = spec["fam"]
        for i in range(spec["n"]):
            if fam == "ident":
                case = gen_ident(rng)
            elif fam == "tounicode":
                case = gen_tounicode(rng)
            elif fam == "ttf":
                case = gen_ttf(rng)
            elif fam == "adv_h":
                case = gen_adv(rng, False)
            elif fam == "adv_v":
                case = gen_adv(rng, True)
            elif fam == "shared":
                case = gen_shared(rng)
            else:
                case = gen_vdef(rng) if i % 4 == 0 else (gen_ws1(rng) if i % 4 == 1 else gen_tu_nonid(rng))
            _run_case(case, rec)
        return
    cms = cjk_cmaps()
    for idx in spec["cmaps"]:
        cm = cms[idx]
        dom = domain(cm["dom"], tuple(cm["classes"]))
        rec.see("cjk_cmaps", cm["cmap"])
        rec.count("domain_chars:%s" % cm["cmap"], len(dom))
        classes = dict(classed_chars())
        if spec["sample"]:
            # quick: every kana of the domain and a seeded sample of the hangul and of the ideographs
            # (each with both ends of its range), kept in code order
            by: Dict[str, List[str]] = {}
            for ch in dom:
                by.setdefault(classes[ch], []).append(ch)
            chars = []
            for k in sorted(by):
                pool = by[k]
                n = len(pool) if k == "kana" else min(len(pool), spec["sample"] * (2 if k == "ideograph" else 1))
                picked = sorted(set(rng.sample(range(len(pool)), n)) | {0, len(pool) - 1})
                chars += [pool[i] for i in picked]
        else:
            chars = dom
            rec.count("cjk_exhaustive_chars", len(chars))
        for i in range(0, len(chars), 96):
            chunk = "".join(chars[i:i + 96])
            for ch in chunk:
                rec.count("class:" + classes[ch])
            rec.count("api_cjk_chars", len(chunk))
            _run_case(make_cjk_case(cm, chunk, None, variant=i // 96), rec)
        for _ in range(spec["mixed"]):
            case = gen_cjk_mixed(rng, cm)
            rec.count("cjk_mixed_cases")
            rec.count("api_cjk_chars", sum(len(t) for t in _texts(case)))
            _run_case(case, rec)


def replay(case: Dict[str, Any]) -> List[Tuple[str, str]]:
    fails, _ = check_case(case)
    return fails
