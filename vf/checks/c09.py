"""C09 - layout grouping follows the documented margins; the result is scale-invariant.

Workload: glyph arrangements on an exact binary grid (vf.gen.c09gen) handed to
pdfminer either as LTChar objects built directly on an LTPage (stub font; the
glyph box is exactly the intended one) or, for a subset, as a generated PDF
(one /Widths font, descent 0, one Tm + Tj per glyph) through extract_pages.

Monitor A (documented grouping, vf.ref.c09ref - predicates transcribed from
docs/source/topic/converting_pdf_to_text.rst, the LAParams docstring and the
find_neighbors docstrings; exact rational arithmetic):
  * every line is a run of glyphs consecutive in the content; a consecutive
    pair is in one line exactly when the documented overlap/distance rule holds;
  * a space stands between two glyphs of a line exactly when the documented
    word_margin rule holds;
  * lines share a box exactly when connected under the documented neighbour
    relation (brute-force connected components);
  * box order: documented precedence constraints (single column top to bottom,
    left column before right column, boxes_flow=None by bottom-left corner);
  * lines inside a box come out top to bottom.
  Outcomes the documentation does not decide are not asserted (counted as
  undecided:*).

Monitor C: the same glyph boxes drawn through a form XObject (/Matrix not commuting with the CTM) and analysed
with all_texts=True give the same lines, boxes, order and groups as on the page; the LTFigure box is the /BBox mapped
by /Matrix x CTM.  Monitor D: tools/pdf2txt.py with --line-overlap/--char-margin/--word-margin/--line-margin/
--boxes-flow/--detect-vertical/--all-texts writes the text extract_text gives with LAParams of the same values.

Monitor B (independent of the documentation): the same arrangement with every
coordinate (page box included) multiplied by 2^k gives the identical tree
(classes, membership, order, inserted spaces/newlines, box indices) and every
bounding box scales exactly.
"""
from __future__ import annotations

import io
import math
import random
from fractions import Fraction
from typing import Any, Dict, List, Optional, Tuple

from vf.common import chash
from vf.gen import c09gen as G
from vf.ref import c09ref as R

ID = "C09"
LEVEL = "exploration"
DESIGN_REF = "DESIGN.md#C09"
TECHNIQUE = "documented-predicate reference model (exact rationals) + metamorphic rescaling by powers of two"
RULE = (
    "arrangements on a 2^-10 grid: (enum) every pair of square glyphs of 5 sizes x every line_overlap / char_margin / "
    "word_margin value x {one step below, on, one step above} the threshold; (random) rows of 2-8 glyphs (square and "
    "1/2, 3/2, 2 aspect) with gaps/offsets at the three character-level thresholds, top-to-bottom rows with "
    "detect_vertical, stacks of 2-6 lines with gap / height difference / left, right, centre offset at line_margin x "
    "height +-1 step, touching and disjoint lines, single columns of 2-5 paragraphs, two columns of equal extent, "
    "over-printed lines, random glyph soups; LAParams dyadic (plus the defaults); each arrangement analysed at scale "
    "2^k for k in a tier-dependent subset of -8..8 (all 17 in thorough for the direct route). distinct = distinct "
    "(glyph boxes, page, LAParams, route); non-trivial = at least one glyph pair or line pair whose outcome the "
    "documentation decides. col3: a tall box on the left, a heading and a wide note (sometimes a middle box) on the "
    "right with the same top and bottom, all content orders of the boxes (left box first for boxes_flow < 1, right "
    "boxes top to bottom for boxes_flow > -1; counted separately where the left box is nearest to the heading and "
    "the right boxes come first in the content). form: 8 families x the same glyph boxes drawn through a form XObject whose /Matrix "
    "(scale 1/2..4 + translation) does not commute with the cm at Do (scale, translation > 2 page sizes), "
    "all_texts=True, compared with the page twin, with the documented grouping, the figure box and 2 further scales "
    "applied through the cm alone. tool: tools/pdf2txt.py run on such PDFs (a quarter through a form) with every "
    "numeric layout flag off its default, output compared with extract_text(laparams=LAParams(same values)); a flag "
    "counts as exercised only when resetting it alone changes the library's text (tool_flag_matters:*). "
    "All glyphs lie inside the page box (>= 1 unit margin; about a quarter of the direct pages "
    "have a non-zero, also negative, origin): text outside the page box is invisible and the documentation does not "
    "speak about it. Not generated / not asserted (documentation silent): word_margin = 0, glyphs placed "
    "entirely left of their predecessor (spaces), word_margin basis when height > width and the two documented "
    "bases disagree, horizontally touching lines, height/alignment difference exactly equal to the tolerance, "
    "closeness between line_margin x smaller and x larger height, glyph pairs that satisfy the horizontal and the "
    "vertical rule at once, orientation of single-glyph lines under detect_vertical, box order outside the "
    "one-column / two-equal-columns / boxes_flow=None-same-x0-or-y0 cases, boxes_flow=-1 inside a column, "
    "boxes_flow=+1 across columns."
)
ASSUMPTIONS = [
    "IEEE-754 double arithmetic: all coordinates are dyadic with < 30 significant bits, so pdfminer's own sums, "
    "products and comparisons on them are exact and multiplying by 2^k commutes with them",
    "the documentation files quoted in vf/ref/c09ref.py are the specification; where the .rst figure (L1/L2) admits "
    "a second reading of 'vertically close' the reading 'gap between the bottom of the upper and the top of the "
    "lower line' is used - it is the one the repository's own test_line_margin pins ('The lines have margin 0.2 "
    "relative to the height')",
    "the alignment / same-height tolerance of find_neighbors is ratio x height (the docstring only says 'close can "
    "be controlled by ratio'); exact equality with the tolerance is never asserted",
    "the stub font (fontname, is_vertical() False, get_descent() 0) is all LTChar needs",
]
SHARD_TIMEOUT = {"quick": 600, "thorough": 5400}

Q = G.Q
SCALES_ALL = list(range(-8, 9))
SCALES_QUICK = [-8, -3, 2, 5, 8]
SCALES_PDF = [-6, 3, 7]
# family -> ((shards, cases per shard) quick, (..) thorough); the column families are the most expensive per case
FAM_SHARDS = {
    "*": ((3, 400), (8, 1100)),
    "col2": ((6, 200), (16, 560)),
    "col1": ((4, 300), (12, 750)),
    "col3": ((3, 300), (10, 600)),
    "vstack": ((4, 300), (12, 750)),
}
RANDOM_FAMS = ["row", "multirow", "vrow", "stack", "vstack", "col1", "col2", "col3", "overprint", "grid", "soup"]


def minimums(tier: str) -> Dict[str, int]:
    # about 0.6 x the smallest value seen over seeds 0..4 on the intact (repaired) tree
    if tier == "quick":
        return {
            "evaluations": 15000, "distinct": 14000, "analyses": 90000, "pairs_decided": 110000, "pairs_joined": 80000,
            "pairs_split": 32000, "spaces_asserted": 80000, "space_yes": 1900, "space_no": 78000,
            "linepairs_yes": 11000, "linepairs_no": 100000, "box_partitions_asserted": 9000,
            "order_constraints_checked": 6500, "order:one_column": 550, "order:two_columns": 600, "order:none": 440,
            "scale_runs": 75000, "scale_bboxes_compared": 1000000, "pdf_cases": 700,
            "near:line_overlap:below": 800, "near:line_overlap:on": 1900, "near:line_overlap:above": 900,
            "near:char_margin:below": 800, "near:char_margin:on": 1500, "near:char_margin:above": 850,
            "near:word_margin:below": 1000, "near:word_margin:on": 750, "near:word_margin:above": 800,
            "near:line_margin_gap:below": 1800, "near:line_margin_gap:on": 2200, "near:line_margin_gap:above": 1100,
            "near:align:below": 130, "near:align:above": 110, "near:height:below": 70, "near:height:above": 65,
            "vertical_lines_seen": 3600, "multi_cell_pages": 20000, "seen:families": 21, "seen:boxes_flow": 7,
            "order:box_beside_column": 450, "col3:left_box_nearest_to_heading": 300,
            "col3:right_column_first_in_content": 100,
            "form_cases": 560, "form_vs_page_compared": 500, "form_cases_with_multiline_box": 200,
            "form:box_partitions_asserted": 250, "tool_runs": 380, "tool_flag_matters:lo": 40,
            "tool_flag_matters:cm": 65, "tool_flag_matters:lm": 100, "tool_flag_matters:wm": 35,
            "tool_flag_matters:bf": 55, "tool_flag_matters:dv": 45, "tool_flag_matters:at": 50,
        }
    return {
        "evaluations": 95000, "distinct": 90000, "analyses": 1400000, "pairs_decided": 750000, "pairs_joined": 540000,
        "pairs_split": 210000, "spaces_asserted": 540000, "space_yes": 10000, "space_no": 520000,
        "linepairs_yes": 78000, "linepairs_no": 670000, "box_partitions_asserted": 46000,
        "order_constraints_checked": 46000, "order:one_column": 3700, "order:two_columns": 3700, "order:none": 3000,
        "scale_runs": 1300000, "scale_bboxes_compared": 20000000, "pdf_cases": 7000,
        "near:line_overlap:below": 3700, "near:line_overlap:on": 10000, "near:line_overlap:above": 4400,
        "near:char_margin:below": 4000, "near:char_margin:on": 8000, "near:char_margin:above": 4000,
        "near:word_margin:below": 3700, "near:word_margin:on": 2800, "near:word_margin:above": 2800,
        "near:line_margin_gap:below": 10000, "near:line_margin_gap:on": 13000, "near:line_margin_gap:above": 6600,
        "near:align:below": 850, "near:align:above": 700, "near:height:below": 520, "near:height:above": 450,
        "vertical_lines_seen": 23000, "multi_cell_pages": 250000, "seen:families": 25, "seen:boxes_flow": 7,
        "order:box_beside_column": 3300, "col3:left_box_nearest_to_heading": 2100,
        "col3:right_column_first_in_content": 700,
        "form_cases": 3200, "form_vs_page_compared": 3000, "form_cases_with_multiline_box": 1100,
        "form:box_partitions_asserted": 1400, "tool_runs": 2300, "tool_flag_matters:lo": 240,
        "tool_flag_matters:cm": 380, "tool_flag_matters:lm": 590, "tool_flag_matters:wm": 220,
        "tool_flag_matters:bf": 340, "tool_flag_matters:dv": 250, "tool_flag_matters:at": 280,
    }


def shards(tier: str, seed: int) -> List[Dict[str, Any]]:
    out: List[Dict[str, Any]] = []
    quick = tier == "quick"
    for which in ("overlap", "char_margin", "word_margin"):
        parts = 2 if quick else 4
        for p in range(parts):
            out.append({"kind": "enum", "which": which, "part": p, "parts": parts})
    sub = 0
    for fam in RANDOM_FAMS:
        nsh, per = FAM_SHARDS.get(fam, FAM_SHARDS["*"])[0 if quick else 1]
        for _ in range(nsh):
            out.append({"kind": "rand", "fam": fam, "n": per, "sub": sub, "via": "direct"})
            sub += 1
    sub = 1000
    for fam in ("row", "stack", "col1", "col2", "multirow", "vrow") if quick else RANDOM_FAMS:
        out.append({"kind": "rand", "fam": fam, "n": 120 if quick else 700, "sub": sub, "via": "pdf"})
        sub += 1
    sub = 2000
    for fam in ("stack", "col1", "col2", "overprint", "multirow", "grid", "vstack", "row"):
        out.append({"kind": "rand", "fam": fam, "n": 70 if quick else 400, "sub": sub, "via": "form"})
        sub += 1
    sub = 3000
    for fam in ("row", "multirow", "stack", "col2", "grid", "vrow", "vstack", "soup"):
        out.append({"kind": "rand", "fam": fam, "n": 50 if quick else 300, "sub": sub, "via": "tool"})
        sub += 1
    return out


# --------------------------------------------------------------------------
# running pdfminer on an arrangement
# --------------------------------------------------------------------------
class _StubFont:
    fontname = "VF9"

    def is_vertical(self) -> bool:
        return False

    def get_descent(self) -> float:
        return 0


_FONT = _StubFont()


def _laparams(la: Dict[str, Any]):
    from pdfminer.layout import LAParams

    return LAParams(line_overlap=la["lo"], char_margin=la["cm"], line_margin=la["lm"], word_margin=la["wm"],
                    boxes_flow=la["bf"], detect_vertical=la["dv"], all_texts=bool(la.get("at", False)))


def _texts(case: Dict[str, Any]) -> List[str]:
    return [G.glyph_text(i, g[2], g[3]) for i, g in enumerate(case["glyphs"])]


def analyse_direct(case: Dict[str, Any], k: int):
    """-> (page, {id(LTChar): glyph index})"""
    from pdfminer.layout import LTChar, LTPage

    s = k - Q
    page = LTPage(1, tuple(math.ldexp(v, s) for v in case["page"]))
    ids: Dict[int, int] = {}
    texts = _texts(case)
    for i, (x0, y0, w, h) in enumerate(case["glyphs"]):
        c = LTChar((math.ldexp(w, s), 0, 0, math.ldexp(h, s), math.ldexp(x0, s), math.ldexp(y0, s)), _FONT, 1, 1, 0,
                   texts[i], 1, 0, None, None)  # type: ignore[arg-type]
        if tuple(c.bbox) != (math.ldexp(x0, s), math.ldexp(y0, s), math.ldexp(x0 + w, s), math.ldexp(y0 + h, s)):
            raise _Precondition("direct glyph %d has bbox %r" % (i, c.bbox))
        ids[id(c)] = i  # the LTChar objects stay referenced from the page tree, so the ids stay valid
        page.add(c)
    page.analyze(_laparams(case["la"]))
    return page, ids


def _num(n: int, s: int) -> bytes:
    """Exact decimal spelling of n * 2^s."""
    f = Fraction(n) * (Fraction(2) ** s)
    if f.denominator == 1:
        return b"%d" % f.numerator
    digits = f.denominator.bit_length() - 1  # denominator is 2^digits
    scaled = f.numerator * 5 ** digits  # f = scaled / 10^digits
    sign = "-" if scaled < 0 else ""
    t = str(abs(scaled)).rjust(digits + 1, "0")
    txt = sign + t[:-digits] + "." + t[-digits:]
    return txt.rstrip("0").encode()


_WIDTHS = None


def _font_dict():
    global _WIDTHS
    from vf.gen.pdfw import N, font_widths

    if _WIDTHS is None:
        w = []
        for code in range(32, 127):
            ch = chr(code)
            if ch in G.CH_HALF:
                w.append(500)
            elif ch in G.CH_WIDE:
                w.append(2000)
            elif ch in G.CH_15:
                w.append(1500)
            else:
                w.append(1000)
        _WIDTHS = w
    return font_widths(name="VF9", first=32, widths=list(_WIDTHS), subtype="TrueType", descent=0, ascent=1000,
                       encoding=N("WinAnsiEncoding"))


def build_pdf(case: Dict[str, Any], k: int) -> bytes:
    from vf.gen.pdfw import N, Raw, page_doc

    s = k - Q
    texts = _texts(case)
    parts = [b"BT"]
    for i, (x0, y0, w, h) in enumerate(case["glyphs"]):
        parts.append(b"/F1 %s Tf 1 0 0 1 %s %s Tm <%02X> Tj" % (_num(h, s), _num(x0, s), _num(y0, s), ord(texts[i])))
    parts.append(b"ET")
    p = case["page"]
    mb = Raw(b"[" + b" ".join(_num(v, s) for v in p) + b"]")
    doc = page_doc([{"content": b"\n".join(parts), "resources": {"Font": {"F1": _font_dict()}}, "mediabox": mb}])
    return doc.build()


def _numf(f: Fraction) -> bytes:
    """Exact decimal spelling of a dyadic rational."""
    assert f.denominator & (f.denominator - 1) == 0, f
    return _num(f.numerator, -(f.denominator.bit_length() - 1))


def form_transform(case: Dict[str, Any], k: int):
    """-> (a, c_k, (tx, ty), (ux_k, uy_k), (trx, try), s): /Matrix [a 0 0 a tx ty], cm [c_k 0 0 c_k ux_k uy_k] (units, exact
    Fractions).  A point q of form space lands at q*a*c_k + tr_k on the page, tr_k = t*c_k + u_k."""
    fm = case["form"]
    two_k = Fraction(2) ** k
    unit = Fraction(1, 1 << Q)
    a, c0 = Fraction(fm["a"]), Fraction(fm["c"])
    ux0, uy0 = fm["u"][0] * unit, fm["u"][1] * unit
    tr0 = (fm["tr"][0] * unit, fm["tr"][1] * unit)
    t = ((tr0[0] - ux0) / c0, (tr0[1] - uy0) / c0)  # scale-independent: the form object is the same at every scale
    ck = c0 * two_k
    return a, ck, t, (ux0 * two_k, uy0 * two_k), (tr0[0] * two_k, tr0[1] * two_k), a * ck


def build_form_pdf(case: Dict[str, Any], k: int) -> bytes:
    """The arrangement drawn through a form XObject whose /Matrix does not commute with the cm in force at Do; the
    page is scaled by 2^k through that cm alone (form object and its content are identical at every scale)."""
    from vf.gen.pdfw import N, Raw, Stream, page_doc

    a, ck, t, u, tr, s = form_transform(case, k)
    a0, c0, _t, _u, tr0, s0 = form_transform(case, 0)
    unit = Fraction(1, 1 << Q)
    texts = _texts(case)
    parts = [b"BT"]
    for i, (x0, y0, w, h) in enumerate(case["glyphs"]):
        qx, qy = (x0 * unit - tr0[0]) / s0, (y0 * unit - tr0[1]) / s0
        parts.append(b"/F1 %s Tf 1 0 0 1 %s %s Tm <%02X> Tj" % (_numf(h * unit / s0), _numf(qx), _numf(qy), ord(texts[i])))
    parts.append(b"ET")
    p = case["page"]
    bw, bh = (p[2] * unit - tr0[0]) / s0, (p[3] * unit - tr0[1]) / s0
    form = Stream({"Type": N("XObject"), "Subtype": N("Form"),
                   "BBox": Raw(b"[0 0 %s %s]" % (_numf(bw), _numf(bh))),
                   "Matrix": Raw(b"[%s 0 0 %s %s %s]" % (_numf(a), _numf(a), _numf(t[0]), _numf(t[1]))),
                   "Resources": {"Font": {"F1": _font_dict()}}}, b"\n".join(parts))
    content = b"q %s 0 0 %s %s %s cm /Fm1 Do Q" % (_numf(ck), _numf(ck), _numf(u[0]), _numf(u[1]))
    mb = Raw(b"[" + b" ".join(_num(v, k - Q) for v in p) + b"]")
    from vf.gen.pdfw import Doc

    doc = Doc()
    fref = doc.add(form)
    doc = page_doc([{"content": content, "resources": {"XObject": {"Fm1": fref}}, "mediabox": mb}], doc=doc)
    return doc.build()


def analyse_pdf(case: Dict[str, Any], k: int):
    """-> (page, {id(LTChar): glyph index}) ; raises _Precondition when the glyph boxes are not the intended ones"""
    from pdfminer.high_level import extract_pages
    from pdfminer.layout import LTChar, LTContainer

    data = build_form_pdf(case, k) if case.get("via") == "form" else build_pdf(case, k)
    pages = list(extract_pages(io.BytesIO(data), laparams=_laparams(case["la"])))
    if len(pages) != 1:
        raise _Precondition("pages=%d" % len(pages))
    page = pages[0]
    s = k - Q
    want: Dict[Tuple[Any, ...], List[int]] = {}
    texts = _texts(case)
    for i, (x0, y0, w, h) in enumerate(case["glyphs"]):
        key = (texts[i], math.ldexp(x0, s), math.ldexp(y0, s), math.ldexp(x0 + w, s), math.ldexp(y0 + h, s))
        want.setdefault(key, []).append(i)
    ids: Dict[int, int] = {}

    def walk(o: Any) -> None:
        if isinstance(o, LTChar):
            key = (o.get_text(),) + tuple(o.bbox)
            lst = want.get(key)
            if not lst:
                raise _Precondition("glyph %r not among the intended boxes (scale 2^%d)" % (key, k))
            ids[id(o)] = lst.pop(0)
        elif isinstance(o, LTContainer):
            for c in o:
                walk(c)

    walk(page)
    if any(want.values()):
        raise _Precondition("glyphs missing from the page: %r" % [v for v in want.values() if v][:3])
    if tuple(page.bbox) != tuple(math.ldexp(v, s) for v in case["page"]):
        raise _Precondition("page bbox %r" % (page.bbox,))
    if case.get("via") == "form":
        from pdfminer.layout import LTFigure

        kids = list(page)
        if len(kids) != 1 or not isinstance(kids[0], LTFigure):
            raise _Precondition("page children %r, expected the one figure" % [type(o).__name__ for o in kids])
        return kids[0], ids
    return page, ids


class _Precondition(Exception):
    pass


class Tree:
    """What came out of the analysis, in terms of glyph indices."""

    def __init__(self) -> None:
        self.boxes: List[Dict[str, Any]] = []  # {"cls", "index", "lines": [{"cls","toks","chars","bbox"}], "bbox"}
        self.loose: List[Dict[str, Any]] = []  # lines outside boxes ("empty" lines)
        self.other: List[str] = []
        self.groups: Any = None
        self.sig: Any = None
        self.container_bbox: Tuple[float, ...] = ()
        self.bboxes: List[Tuple[float, ...]] = []  # glyphs, lines, boxes in output order
        self.gbboxes: List[Tuple[float, ...]] = []  # groups


def read_tree(page: Any, ids: Dict[int, int]) -> Tree:
    from pdfminer.layout import LTAnno, LTChar, LTTextBox, LTTextGroup, LTTextLine

    t = Tree()
    t.container_bbox = tuple(page.bbox)

    def rd_line(ln: Any) -> Dict[str, Any]:
        toks: List[Any] = []
        chars: List[int] = []
        for it in ln:
            if isinstance(it, LTChar):
                i = ids.get(id(it), -1)
                toks.append(i)
                chars.append(i)
                t.bboxes.append(tuple(it.bbox))
            elif isinstance(it, LTAnno):
                toks.append(it.get_text())
            else:
                toks.append("?" + type(it).__name__)
        t.bboxes.append(tuple(ln.bbox))
        return {"cls": type(ln).__name__, "toks": toks, "chars": chars, "bbox": tuple(ln.bbox)}

    first_of: Dict[int, int] = {}
    for obj in page:
        if isinstance(obj, LTTextBox):
            lines = [rd_line(ln) for ln in obj]
            t.bboxes.append(tuple(obj.bbox))
            t.boxes.append({"cls": type(obj).__name__, "index": obj.index, "lines": lines, "bbox": tuple(obj.bbox)})
            firsts = [ln["chars"][0] for ln in lines if ln["chars"]]
            first_of[id(obj)] = min(firsts) if firsts else -1
        elif isinstance(obj, LTTextLine):
            t.loose.append(rd_line(obj))
        elif isinstance(obj, LTChar):
            t.other.append("LTChar:%d" % ids.get(id(obj), -1))
        else:
            t.other.append(type(obj).__name__)

    def rd_group(g: Any) -> Any:
        if isinstance(g, LTTextGroup):
            t.gbboxes.append(tuple(g.bbox))
            return [type(g).__name__, [rd_group(c) for c in g]]
        return first_of.get(id(g), -2)

    groups = getattr(page, "groups", None)
    t.groups = [rd_group(g) for g in groups] if groups else None
    t.sig = (
        [(b["cls"], b["index"], [(ln["cls"], ln["toks"]) for ln in b["lines"]]) for b in t.boxes],
        [(ln["cls"], ln["toks"]) for ln in t.loose],
        t.other,
    )
    return t


def _exc_key(e: BaseException) -> str:
    tb = e.__traceback__
    fn = "?"
    while tb is not None:
        if "pdfminer" in tb.tb_frame.f_code.co_filename:
            fn = tb.tb_frame.f_code.co_name
        tb = tb.tb_next
    return "exception:%s:%s" % (type(e).__name__, fn)


def analyse(case: Dict[str, Any], k: int):
    """-> (Tree, None) or (None, (key, detail))"""
    try:
        if case.get("via") in ("pdf", "form"):
            page, ids = analyse_pdf(case, k)
        else:
            page, ids = analyse_direct(case, k)
        return read_tree(page, ids), None
    except _Precondition as e:
        return None, ("pdf_route_glyph_box", str(e))
    except RecursionError as e:
        return None, ("exception:RecursionError", repr(e))
    except Exception as e:  # noqa: BLE001
        return None, (_exc_key(e), repr(e))


# --------------------------------------------------------------------------
# monitor A: documented grouping
# --------------------------------------------------------------------------
def _gbox(g: List[int]) -> R.Box:
    return (g[0], g[1], g[0] + g[2], g[1] + g[3])


def _near(stats: Dict[str, int], name: str, value, thr) -> None:
    d = value - thr
    if d == 0:
        stats["near:%s:on" % name] = stats.get("near:%s:on" % name, 0) + 1
    elif 0 < d <= 1:
        stats["near:%s:above" % name] = stats.get("near:%s:above" % name, 0) + 1
    elif -1 <= d < 0:
        stats["near:%s:below" % name] = stats.get("near:%s:below" % name, 0) + 1


def check_documented(case: Dict[str, Any], t: Tree, stats: Dict[str, int]) -> List[Tuple[str, str]]:
    fails: List[Tuple[str, str]] = []
    la = case["la"]
    lo, cm, lm, wm = Fraction(la["lo"]), Fraction(la["cm"]), Fraction(la["lm"]), Fraction(la["wm"])
    bf = None if la["bf"] is None else Fraction(la["bf"])
    dv = bool(la["dv"])
    gl = [_gbox(g) for g in case["glyphs"]]
    n = len(gl)

    def add(key: str, detail: str) -> None:
        fails.append((key, "%s [fam=%s la=%r]" % (detail, case["fam"], la)))

    def bump(name: str, k: int = 1) -> None:
        stats[name] = stats.get(name, 0) + k

    # ---- every glyph exactly once, inside a line
    all_lines = [ln for b in t.boxes for ln in b["lines"]] + t.loose
    seen = sorted(i for ln in all_lines for i in ln["chars"])
    if seen != list(range(n)) or t.other:
        add("glyph_lost_or_duplicated", "glyph indices in lines %r, other page children %r" % (seen, t.other))
        return fails
    if t.loose:
        add("line_outside_boxes", "%d line(s) not in any box although no glyph is blank or degenerate: %r"
            % (len(t.loose), [ln["toks"] for ln in t.loose]))

    # ---- lines are runs of consecutive glyphs; pairwise join / space
    line_of: Dict[int, int] = {}
    for li, ln in enumerate(all_lines):
        ch = ln["chars"]
        if ch != list(range(ch[0], ch[0] + len(ch))):
            add("line_not_consecutive_run", "line holds glyphs %r" % ch)
            return fails
        for i in ch:
            line_of[i] = li
        toks = ln["toks"]
        if not toks or toks[-1] != "\n" or any(isinstance(x, str) and x not in (" ", "\n") for x in toks) \
                or "\n" in toks[:-1]:
            add("line_tokens_malformed", "tokens %r" % toks)
            return fails
    exp = R.expected_lines(gl, lo, cm, wm, dv)
    for i in range(n - 1):
        a, b = gl[i], gl[i + 1]
        # coverage: how close to each threshold is this pair
        for (a_, b_) in ((a, b), (R.transpose(a), R.transpose(b))) if dv else ((a, b),):
            ov = max(0, min(a_[3], b_[3]) - max(a_[1], b_[1]))
            dist = max(0, max(a_[0], b_[0]) - min(a_[2], b_[2]))
            if dist < cm * max(a_[2] - a_[0], b_[2] - b_[0]):
                _near(stats, "line_overlap", ov, lo * min(a_[3] - a_[1], b_[3] - b_[1]))
            if ov > lo * min(a_[3] - a_[1], b_[3] - b_[1]):
                _near(stats, "char_margin", dist, cm * max(a_[2] - a_[0], b_[2] - b_[0]))
        got = line_of[i] == line_of[i + 1]
        want = exp.joined[i]
        if want is None:
            bump("undecided:pair_both_orientations")
            continue
        bump("pairs_decided")
        bump("pairs_joined" if want else "pairs_split")
        if want and not got:
            add("line_join_missing" + (":v" if exp.orient[i] == "v" else ""),
                "glyphs %d %r and %d %r satisfy the documented same-line rule but are in different lines"
                % (i, a, i + 1, b))
            continue
        if got and not want:
            add("line_join_extra", "glyphs %d %r and %d %r are in one line (%s) but the documented rule fails"
                % (i, a, i + 1, b, all_lines[line_of[i]]["cls"]))
            continue
        if not got:
            continue
        ln = all_lines[line_of[i]]
        want_cls = "LTTextLineHorizontal" if exp.orient[i] == "h" else "LTTextLineVertical"
        if ln["cls"] != want_cls:
            add("line_orientation", "glyphs %d,%d joined by the %s rule but the line is a %s"
                % (i, i + 1, exp.orient[i], ln["cls"]))
            continue
        if exp.orient[i] == "v":
            bump("vertical_pairs")
        toks = ln["toks"]
        p = toks.index(i)
        between = toks[p + 1:toks.index(i + 1)]
        if between not in ([], [" "]):
            add("line_tokens_malformed", "between glyphs %d and %d: %r" % (i, i + 1, between))
            continue
        sp = exp.space[i]
        if exp.orient[i] == "h":
            _near(stats, "word_margin", b[0] - a[2], wm * max(b[2] - b[0], b[3] - b[1]))
        else:
            _near(stats, "word_margin", a[1] - b[3], wm * max(b[2] - b[0], b[3] - b[1]))
        if sp is None:
            bump("undecided:space")
            continue
        bump("spaces_asserted")
        bump("space_yes" if sp else "space_no")
        if sp and not between:
            add("space_missing", "glyph %d %r follows %d %r at more than word_margin but no space was inserted"
                % (i + 1, b, i, a))
        elif between and not sp:
            add("space_extra", "space inserted between %d %r and %d %r although the gap does not exceed word_margin"
                % (i, a, i + 1, b))
    if fails:
        return fails

    # ---- lines inside a box: top to bottom (right to left for vertical boxes)
    for b in t.boxes:
        boxes_l = [R.union([gl[i] for i in ln["chars"]]) for ln in b["lines"]]
        for u, v in zip(boxes_l, boxes_l[1:]):
            if b["cls"] == "LTTextBoxHorizontal" and u[3] < v[3]:
                add("line_order_in_box", "line with top %d comes before line with top %d" % (u[3], v[3]))
            if b["cls"] == "LTTextBoxVertical" and u[2] < v[2]:
                add("line_order_in_box:v", "column with right edge %d before column with right edge %d" % (u[2], v[2]))
        if b["cls"] == "LTTextBoxVertical":
            bump("vertical_lines_seen", len(b["lines"]))

    # ---- boxes: connected components of the documented neighbour relation over the observed lines
    lines = []
    box_of: List[int] = []
    for bi, b in enumerate(t.boxes):
        for ln in b["lines"]:
            if len(ln["chars"]) == 1:
                o = "?" if dv else "h"
            else:
                o = "h" if ln["cls"] == "LTTextLineHorizontal" else "v"
            lines.append((R.union([gl[i] for i in ln["chars"]]), o, ln["chars"][0]))
            box_of.append(bi)
    for i in range(len(lines)):
        for j in range(i + 1, len(lines)):
            a, b2 = lines[i][0], lines[j][0]
            if lines[i][1] == "v" or lines[j][1] == "v":
                continue
            r = R.lines_neighbours(a, b2, lm)
            if r is True:
                bump("linepairs_yes")
            elif r is False:
                bump("linepairs_no")
            else:
                bump("undecided:linepair")
            if min(a[2], b2[2]) - max(a[0], b2[0]) > 0:
                ha, hb = a[3] - a[1], b2[3] - b2[1]
                gap = max(a[1], b2[1]) - min(a[3], b2[3])
                al = min(abs(a[0] - b2[0]), abs(a[2] - b2[2]), abs(Fraction(a[0] + a[2], 2) - Fraction(b2[0] + b2[2], 2)))
                for hh in {ha, hb}:
                    _near(stats, "line_margin_gap", gap, lm * hh)
                    if gap < lm * min(ha, hb):
                        _near(stats, "align", al, lm * hh)
                        if ha != hb:
                            _near(stats, "height", abs(ha - hb), lm * hh)
    part, nmaybe = R.expected_boxes([(b_, o) for (b_, o, _) in lines], lm, dv)
    if part is None:
        bump("undecided:box_partition")
    else:
        bump("box_partitions_asserted")
        bump("boxes_expected", len(part))
        comp_of = {}
        for ci, comp in enumerate(part):
            for li in comp:
                comp_of[li] = ci
        for i in range(len(lines)):
            for j in range(i + 1, len(lines)):
                same_e = comp_of[i] == comp_of[j]
                same_o = box_of[i] == box_of[j]
                if same_e and not same_o:
                    add("box_join_missing" + (":v" if lines[i][1] == "v" else ""),
                        "lines %r and %r (first glyphs %d, %d) are connected by the documented neighbour relation "
                        "but lie in different boxes" % (lines[i][0], lines[j][0], lines[i][2], lines[j][2]))
                    return fails
                if same_o and not same_e:
                    add("box_join_extra" + (":v" if lines[i][1] == "v" else ""),
                        "lines %r and %r (first glyphs %d, %d) share a box but are not connected by the documented "
                        "neighbour relation" % (lines[i][0], lines[j][0], lines[i][2], lines[j][2]))
                    return fails

    # ---- order of the boxes
    if t.boxes and all(b["cls"] == "LTTextBoxHorizontal" for b in t.boxes):
        bb = [R.union([gl[i] for ln in b["lines"] for i in ln["chars"]]) for b in t.boxes]
        cls, cons = R.order_constraints(bb, bf)
        bump("layout:" + cls)
        if cls == "box_beside_column" and cons:
            # the cases in which the "anything between the two?" query decides the reading order: the left box is
            # nearest (by area) to the top right box, and both right boxes precede the left box in the content
            def area_between(u, v):
                w = max(u[2], v[2]) - min(u[0], v[0])
                hh = max(u[3], v[3]) - min(u[1], v[1])
                return w * hh - (u[2] - u[0]) * (u[3] - u[1]) - (v[2] - v[0]) * (v[3] - v[1])

            li = min(range(len(bb)), key=lambda i: bb[i][0])
            rs = sorted((i for i in range(len(bb)) if i != li), key=lambda i: -bb[i][3])
            d_xy = area_between(bb[li], bb[rs[0]])
            others = [area_between(bb[i], bb[j]) for i in range(len(bb)) for j in range(i + 1, len(bb))
                      if {i, j} != {li, rs[0]}]
            first = [min(i for ln in b["lines"] for i in ln["chars"]) for b in t.boxes]
            if d_xy < min(others):
                bump("col3:left_box_nearest_to_heading")
                if all(first[r] < first[li] for r in rs):
                    bump("col3:right_column_first_in_content")
        if cons:
            bump("order:" + cls)
            bump("order_constraints_checked", len(cons))
        for (i, j) in cons:
            if not i < j:  # t.boxes is in output order
                add("box_order:%s" % cls, "box %r must precede box %r (boxes_flow=%r) but comes after it; output order %r"
                    % (bb[i], bb[j], la["bf"], bb))
                break
    return fails


# --------------------------------------------------------------------------
# monitor B: scale invariance
# --------------------------------------------------------------------------
def _tied_only(t0: Tree, t1: Tree, gl: List[R.Box]) -> bool:
    """True when the two trees differ only in the order of equal-top lines inside boxes."""
    if len(t0.boxes) != len(t1.boxes) or t0.loose != t1.loose or t0.other != t1.other:
        return False
    for b0, b1 in zip(t0.boxes, t1.boxes):
        if (b0["cls"], b0["index"]) != (b1["cls"], b1["index"]) or len(b0["lines"]) != len(b1["lines"]):
            return False

        def keyed(b):
            return sorted((ln["cls"], ln["toks"]) for ln in b["lines"])

        if keyed(b0) != keyed(b1):
            return False
        tops0 = [R.union([gl[i] for i in ln["chars"]])[3] for ln in b0["lines"]]
        tops1 = [R.union([gl[i] for i in ln["chars"]])[3] for ln in b1["lines"]]
        if tops0 != tops1:
            return False
    return True


def check_scales(case: Dict[str, Any], t0: Tree, scales: List[int], stats: Dict[str, int]) -> List[Tuple[str, str]]:
    fails: List[Tuple[str, str]] = []
    gl = [_gbox(g) for g in case["glyphs"]]
    for k in scales:
        if k == 0:
            continue
        tk, err = analyse(case, k)
        stats["analyses"] = stats.get("analyses", 0) + 1
        if err is not None:
            fails.append((err[0] if err[0].startswith("pdf_route") else "scale_dependence:" + err[0],
                          "at scale 2^%d: %s (no error at scale 1)" % (k, err[1])))
            continue
        stats["scale_runs"] = stats.get("scale_runs", 0) + 1
        if tk.sig != t0.sig:
            # is the output a function of the input at all?  (fresh objects, same coordinates)
            again = []
            for kk in (0, k, 0, k):
                ta, _ = analyse(case, kk)
                again.append(ta.sig if ta is not None else None)
            if again[0] != t0.sig or again[2] != t0.sig or again[1] != tk.sig or again[3] != tk.sig:
                key = "output_not_reproducible"
                why = "the same arrangement analysed again at the same scale gives another result; "
            else:
                why = ""
                if _tied_only(t0, tk, gl):
                    key = "scale_dependence:order_of_equal_top_lines"
                elif sorted(repr(b[0::2]) for b in tk.sig[0]) == sorted(repr(b[0::2]) for b in t0.sig[0]):
                    key = "scale_dependence:box_order"
                else:
                    key = "scale_dependence:grouping"
            fails.append((key, "%sscale 1 gives %r but scale 2^%d gives %r [fam=%s la=%r]"
                          % (why, _show(t0), k, _show(tk), case["fam"], case["la"])))
            continue
        if tk.groups != t0.groups:
            fails.append(("scale_dependence:group_tree", "same boxes in the same order, but the hierarchy of groups is %r "
                          "at scale 1 and %r at scale 2^%d [fam=%s la=%r]" % (t0.groups, tk.groups, k, case["fam"], case["la"])))
            continue
        pairs = list(zip(t0.bboxes, tk.bboxes)) + list(zip(t0.gbboxes, tk.gbboxes))
        if len(t0.bboxes) != len(tk.bboxes) or len(t0.gbboxes) != len(tk.gbboxes):
            fails.append(("scale_dependence:bbox", "number of objects differs at 2^%d" % k))
            continue
        bad = None
        for b0, bk in pairs:
            if tuple(math.ldexp(v, k) for v in b0) != bk:
                bad = (b0, bk)
                break
        stats["scale_bboxes_compared"] = stats.get("scale_bboxes_compared", 0) + len(pairs)
        if bad:
            fails.append(("scale_dependence:bbox", "bbox %r at scale 1 becomes %r at 2^%d, not its exact multiple"
                          % (bad[0], bad[1], k)))
    return fails


def _show(t: Tree) -> List[List[str]]:
    out = []
    for b in t.boxes:
        out.append(["".join(x if isinstance(x, str) else "<%d>" % x for x in ln["toks"]) for ln in b["lines"]])
    return out


# --------------------------------------------------------------------------
# monitor C: the same glyph boxes through a form XObject (all_texts=True) group like on the page
# --------------------------------------------------------------------------
SCALES_FORM = [-4, 3]


def add_form(case: Dict[str, Any], rng: random.Random) -> Dict[str, Any]:
    """Turn a page-origin-(0,0) case into a form case: /Matrix scales by a (and translates), the cm at Do scales by c
    and translates by u; a*c != 1 and u is more than two page sizes, so /Matrix and cm do not commute by far."""
    p = case["page"]
    a, c = rng.choice([(2.0, 1.0), (0.5, 1.0), (4.0, 1.0), (1.0, 2.0), (1.0, 0.5), (2.0, 2.0), (0.5, 0.25), (4.0, 0.5)])
    u = [rng.choice([-1, 1]) * (2 * p[2] + rng.randrange(0, 4 * G.U) // 64 * 64),
         rng.choice([-1, 1]) * (2 * p[3] + rng.randrange(0, 4 * G.U) // 64 * 64)]
    tr = [rng.randrange(0, G.U // 2) // 64 * 64, rng.randrange(0, G.U // 2) // 64 * 64]
    out = dict(case)
    out["via"] = "form"
    out["fam"] = case["fam"]
    out["la"] = dict(case["la"], at=True)
    out["form"] = {"a": a, "c": c, "u": u, "tr": tr}
    return out


def check_form_case(case: Dict[str, Any], stats: Dict[str, int]) -> List[Tuple[str, str]]:
    fails: List[Tuple[str, str]] = []
    tf, err = analyse(case, 0)
    stats["analyses"] = stats.get("analyses", 0) + 1
    if err is not None:
        return [(err[0], "%s [form route, fam=%s form=%r]" % (err[1], case["fam"], case["form"]))]
    # the figure's box: the form's /BBox mapped by /Matrix x CTM (ISO 32000-1 8.10.1) = [tr, page corner]
    unit = 2.0 ** -Q
    want_bbox = (case["form"]["tr"][0] * unit, case["form"]["tr"][1] * unit, case["page"][2] * unit, case["page"][3] * unit)
    if tf.container_bbox != want_bbox:
        fails.append(("form:figure_bbox", "LTFigure bbox %r, but /BBox mapped by /Matrix x CTM is %r [form=%r]"
                      % (tf.container_bbox, want_bbox, case["form"])))
    # documented grouping inside the figure
    st: Dict[str, int] = {}
    for kx, d in check_documented(case, tf, st):
        fails.append(("form:" + kx, d + " [inside a form XObject, all_texts=True, form=%r]" % (case["form"],)))
    for name in ("box_partitions_asserted", "pairs_decided", "linepairs_yes"):
        stats["form:" + name] = stats.get("form:" + name, 0) + st.get(name, 0)
    if any(len(b["lines"]) >= 2 for b in tf.boxes):
        stats["form_cases_with_multiline_box"] = stats.get("form_cases_with_multiline_box", 0) + 1
    # the same arrangement directly on the page
    pc = dict(case, via="pdf")
    tp, err = analyse(pc, 0)
    stats["analyses"] = stats.get("analyses", 0) + 1
    if err is not None:
        fails.append((err[0], "%s [page twin of a form case]" % err[1]))
    else:
        stats["form_vs_page_compared"] = stats.get("form_vs_page_compared", 0) + 1
        if any(len(b["lines"]) >= 2 for b in tp.boxes):
            stats["form_twin_with_multiline_box"] = stats.get("form_twin_with_multiline_box", 0) + 1
        if tp.sig != tf.sig or tp.groups != tf.groups:
            fails.append(("form_vs_page:grouping", "glyphs drawn on the page give %r, the same glyph boxes drawn through "
                          "a form XObject (all_texts=True) give %r [fam=%s la=%r form=%r]"
                          % (_show(tp), _show(tf), case["fam"], case["la"], case["form"])))
        elif tp.bboxes != tf.bboxes:
            fails.append(("form_vs_page:bbox", "same tree, different bounding boxes [form=%r]" % (case["form"],)))
    # scaled through the cm alone
    for kx, d in check_scales(case, tf, SCALES_FORM, stats):
        fails.append((kx if kx.startswith("pdf_route") else "form:" + kx, d))
    return fails


# --------------------------------------------------------------------------
# monitor D: every layout flag of tools/pdf2txt.py reaches the analysis
# --------------------------------------------------------------------------
_TOOLS: Dict[str, Any] = {}
LA_DEFAULT = {"lo": 0.5, "cm": 2.0, "lm": 0.5, "wm": 0.1, "bf": 0.5, "dv": False, "at": False}
LA_FLAG = {"lo": "--line-overlap", "cm": "--char-margin", "lm": "--line-margin", "wm": "--word-margin",
           "bf": "--boxes-flow", "dv": "--detect-vertical", "at": "--all-texts"}


def _tool(name: str) -> Any:
    """tools/<name>.py of the tree under test, imported by path (the tools are scripts, not a package)."""
    import importlib.util
    import os

    from vf import REPO

    if name not in _TOOLS:
        spec = importlib.util.spec_from_file_location("vf_c09_tool_" + name, os.path.join(REPO, "tools", name + ".py"))
        mod = importlib.util.module_from_spec(spec)  # type: ignore[arg-type]
        spec.loader.exec_module(mod)  # type: ignore[union-attr]
        _TOOLS[name] = mod
    return _TOOLS[name]


def tool_la(case: Dict[str, Any], rng: random.Random) -> Dict[str, Any]:
    """LAParams for a tool case: every numeric flag differs from its default."""
    la = dict(case["la"])
    la.setdefault("at", False)
    alt = {"lo": G.LO, "cm": G.CM, "lm": G.LM, "wm": G.WM, "bf": G.BF}
    for k, vals in alt.items():
        while la[k] == LA_DEFAULT[k]:
            la[k] = rng.choice(vals)
    return la


def check_tool_case(case: Dict[str, Any], stats: Dict[str, int]) -> List[Tuple[str, str]]:
    import contextlib
    import os
    import shutil
    import tempfile

    from pdfminer.high_level import extract_text

    la = case["la"]
    src = dict(case, via=case["toolsrc"])
    try:
        data = build_form_pdf(src, 0) if case["toolsrc"] == "form" else build_pdf(src, 0)
    except Exception as e:  # noqa: BLE001
        return [("harness:tool_case", repr(e))]
    wd = tempfile.mkdtemp(prefix="vf-c09-")
    try:
        path, outp = os.path.join(wd, "in.pdf"), os.path.join(wd, "out.txt")
        with open(path, "wb") as f:
            f.write(data)
        args = [path, "-o", outp]
        for k in ("lo", "cm", "lm", "wm"):
            args.append("%s=%r" % (LA_FLAG[k], la[k]))
        args.append("--boxes-flow=%s" % ("disabled" if la["bf"] is None else repr(la["bf"])))
        if la["dv"]:
            args.append("--detect-vertical")
        if la.get("at"):
            args.append("--all-texts")
        try:
            with contextlib.redirect_stdout(io.StringIO()):
                _tool("pdf2txt").main(args)
            with open(outp, encoding="utf-8") as f:
                got = f.read()
        except (Exception, SystemExit) as e:  # noqa: BLE001
            return [("pdf2txt:exception:%s" % type(e).__name__, "pdf2txt %s: %r" % (" ".join(args[3:]), e))]
        stats["tool_runs"] = stats.get("tool_runs", 0) + 1

        def lib(la_: Dict[str, Any]) -> str:
            return extract_text(path, laparams=_laparams(la_))

        try:
            want = lib(la)
            alts = {}
            for k in LA_FLAG:
                if la.get(k, False) != LA_DEFAULT[k]:
                    alts[k] = lib(dict(la, **{k: LA_DEFAULT[k]}))
        except Exception as e:  # noqa: BLE001
            return [(_exc_key(e), "extract_text on a tool case: %r" % e)]
        for k, txt in alts.items():
            if txt != want:
                stats["tool_flag_matters:" + k] = stats.get("tool_flag_matters:" + k, 0) + 1
        if got == want:
            return []
        ignored = sorted(k for k, txt in alts.items() if txt == got)
        key = "pdf2txt_flag_ignored:" + LA_FLAG[ignored[0]] if len(ignored) == 1 else "pdf2txt_layout_flags"
        return [(key, "pdf2txt %s writes %r but extract_text(laparams=LAParams(same values)) gives %r%s"
                 % (" ".join(args[3:]), got[:300], want[:300],
                    "; the output is what the library gives with %s at its default" % [LA_FLAG[k] for k in ignored]
                    if ignored else ""))]
    finally:
        shutil.rmtree(wd, ignore_errors=True)


# --------------------------------------------------------------------------
def check_case(case: Dict[str, Any], scales: List[int], stats: Optional[Dict[str, int]] = None) -> List[Tuple[str, str]]:
    if stats is None:
        stats = {}
    if case.get("via") in ("form", "tool"):
        fails = check_form_case(case, stats) if case["via"] == "form" else check_tool_case(case, stats)
        seen_k = set()
        return [(kx, d) for kx, d in fails if not (kx in seen_k or seen_k.add(kx))]
    t0, err = analyse(case, 0)
    stats["analyses"] = stats.get("analyses", 0) + 1
    if err is not None:
        return [(err[0], "%s [fam=%s la=%r]" % (err[1], case["fam"], case["la"]))]
    fails = check_documented(case, t0, stats)
    fails += check_scales(case, t0, scales, stats)
    # the documented rules are scale-free: one more comparison of the reference with a scaled run would only repeat
    # monitor B, so it is not done.
    seen = set()
    out = []
    for kx, d in fails:
        if kx not in seen:
            seen.add(kx)
            out.append((kx, d))
    return out


def _multi_cell(case: Dict[str, Any], scales: List[int]) -> int:
    """How many of the analysed scales spread the arrangement over more than one 50-unit Plane cell."""
    p = case["page"]
    n = 0
    for k in [0] + [s for s in scales if s != 0]:
        ext = math.ldexp(max(p[2] - p[0], p[3] - p[1]), k - Q)
        if ext > 50:
            n += 1
    return n


def _run_one(case: Dict[str, Any], scales: List[int], rec) -> None:
    stats: Dict[str, int] = {}
    fails = check_case(case, scales, stats)
    decided = stats.get("pairs_decided", 0) + stats.get("linepairs_yes", 0) + stats.get("linepairs_no", 0)
    rec.case(chash(case["glyphs"], case["page"], case["la"], case.get("via")), decided > 0)
    for k, v in stats.items():
        rec.count(k, v)
    sfx = {"pdf": "/pdf", "form": "/form", "tool": "/tool"}.get(case.get("via"), "")
    if sfx in ("/form", "/tool"):
        rec.count("form_cases" if sfx == "/form" else "tool_cases")
        rec.count("fam:" + case["fam"] + sfx)
        rec.see("families", case["fam"] + sfx)
        for kx, d in fails:
            rec.fail(kx, case, d)
        return
    rec.count("fam:" + case["fam"] + ("/pdf" if case.get("via") == "pdf" else ""))
    rec.count("multi_cell_pages", _multi_cell(case, scales))
    if case.get("via") == "pdf":
        rec.count("pdf_cases")
    rec.see("families", case["fam"] + ("/pdf" if case.get("via") == "pdf" else ""))
    rec.see("boxes_flow", repr(case["la"]["bf"]))
    for kx, d in fails:
        rec.fail(kx, case, d)
    if rec.want_sample() and len(case["glyphs"]) >= 4:
        t0, _ = analyse(case, 0)
        rec.sample({"case": case, "output": _show(t0) if t0 else None})


def run_shard(spec: Dict[str, Any], rec) -> None:
    quick = spec["tier"] == "quick"
    if spec["kind"] == "enum":
        cases = G.enum_pairs(spec["which"])
        scales = SCALES_QUICK if quick else SCALES_ALL
        for i, c in enumerate(cases):
            if i % spec["parts"] == spec["part"]:
                _run_one(c, scales, rec)
        return
    rng = random.Random("C09/%d/%d" % (spec["seed"], spec["sub"]))
    gen = G.GENERATORS[spec["fam"]]
    via = spec["via"]
    if via in ("form", "tool"):
        for i in range(spec["n"]):
            for _try in range(20):
                case = gen(rng, "pdf")
                if G.extent(case) <= 24 * G.U:
                    break
            if via == "form":
                case = add_form(case, rng)
            else:
                src = "form" if i % 4 == 3 else "pdf"
                if src == "form":
                    case = add_form(case, rng)
                case["toolsrc"] = src
                case["via"] = "tool"
                case["la"] = tool_la(case, rng)
            _run_one(case, [], rec)
        return
    limit = 40 * G.U if via == "direct" else 24 * G.U
    for _ in range(spec["n"]):
        for _try in range(20):
            case = gen(rng, via)
            if G.extent(case) <= limit:
                break
        if via == "pdf":
            scales = SCALES_PDF
        else:
            scales = SCALES_QUICK if quick else SCALES_ALL
        _run_one(case, scales, rec)


def finish(agg: Dict[str, Any], tier: str) -> Dict[str, Any]:
    c = agg["counters"]
    und = {k[len("undecided:"):]: v for k, v in c.items() if k.startswith("undecided:")}
    return {
        "scales_direct": SCALES_QUICK if tier == "quick" else SCALES_ALL,
        "scales_pdf": SCALES_PDF,
        "not_asserted_because_documentation_undecided": und,
        "documented_outcomes_asserted": {
            "glyph_pairs": c.get("pairs_decided", 0), "spaces": c.get("spaces_asserted", 0),
            "line_pairs": c.get("linepairs_yes", 0) + c.get("linepairs_no", 0),
            "box_partitions": c.get("box_partitions_asserted", 0),
            "order_constraints": c.get("order_constraints_checked", 0),
        },
    }


def replay(case: Dict[str, Any]) -> List[Tuple[str, str]]:
    if case.get("via") in ("form", "tool"):
        return check_case(case, [])
    return check_case(case, SCALES_PDF if case.get("via") == "pdf" else SCALES_ALL)
