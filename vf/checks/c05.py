"""C05 — text model: each glyph gets the position, advance and state PDF assigns.

Workload: random operator programs over q Q cm, BT ET, Tc Tw Tz TL Tf Ts, Td TD Tm
T*, Tj TJ ' ", g rg k G RG K and Do of (nested) form XObjects, with dyadic
operands so that matrix arithmetic is exact; malformed occurrences of every
operator are injected, each followed by a well-formed one; the program is emitted
as one stream or split at white space into a Contents array.

Observation: PDFPageAggregator(laparams=None) + process_page, all LTChar in
showing order (figures flattened); a harness subclass of PDFPageInterpreter
records (ctm, text state, graphic state, device ctm) around every Do.

Oracle: vf.ref.gmodel.TextModel (ISO 32000-1 9.3-9.4 in Fractions).
"""
from __future__ import annotations

import io
import math
import random
from fractions import Fraction as F
from typing import Any, Dict, List, Optional, Tuple

from vf.common import chash
from vf.gen.pdfw import Doc, N, Name, Real, Ref, Stream, font_widths
from vf.ref.gmodel import (IDENT, NEVER_SET, UNKNOWN, FontModel, Glyph, Op, TextModel, apply_pt, emit_tokens, fmt_num, mul)

ID = "C05"
LEVEL = "exploration"
DESIGN_REF = "DESIGN.md#C05"
TECHNIQUE = "runtime monitoring: generated operator programs executed by the real interpreter; exact-rational reference text model as oracle; state recorder around form XObject invocation"
LEVEL_TEXT = (
    "Exploration against a reference interpreter: random operator programs (dyadic operands, so matrix arithmetic is exact) are executed by the real interpreter and by an exact-rational model of ISO 32000-1 9.3-9.4; every glyph's matrix, advance, bbox, size, font and fill colour is compared, and a recorder around Do compares the caller's full state before and after each form. Right level: the property quantifies over all programs; a reference model plus random programs with malformed operators injected is the strongest oracle that does not need a proof of the interpreter."
)
RULE = (
    "random content programs (20-70 operators quick) over q Q cm BT ET Tc Tw Tz TL Tf Ts Td TD Tm T* Tj TJ ' \" g rg k G RG K, cs/CS with the device colour spaces followed by sc/scn/SC/SCN (sometimes with an empty q Q between), "
    "and Do of form XObjects (own /Matrix, /Resources or the page's by omission, nested <=3) with dyadic operands; 2-3 simple "
    "fonts per page (a fifth of them Type 3 with /FontMatrix scale 1/1000, 1/100 or 1/512, half of those oblique; a quarter of the judged pages follow a page that leaves text state and colours behind; a third of the pages with an Identity-H composite font) with random /Widths (incl. 0 and halves), sizes incl. negative and fractional; malformed occurrences "
    "(missing / ill-typed operands) of every operator, each followed by a well-formed instance; program emitted as one stream "
    "and as Contents arrays split at white space (white space kept on one side). distinct = distinct content bytes; "
    "non-trivial = >=1 glyph shown and >=5 distinct operators. Not generated: q/Q with anything between them inside text objects, Contents split "
    "without white space (pure concatenation would fuse tokens), Tr, surplus operands."
)
ASSUMPTIONS = [
    "the reference model vf/ref/gmodel.py implements ISO 32000-1 9.3-9.4 (reviewed against 9.4.2-9.4.4)",
    "LTChar.matrix is the text matrix (with the pen translation) times the CTM, LTChar.adv = w0/1000 x Tfs x Th in text space, as pdfminer documents them",
    "comparison tolerance 1e-9 relative (width/1000 is not dyadic); all other operands are dyadic rationals",
    "a colour the program never sets is not asserted (pdfminer reports None where the model has the initial black)",
    "the fill colour space (LTChar.ncs.name) is asserted once a fill colour has been set; after cs the colour VALUE is not asserted until sc/scn sets it (pdfminer keeps the old value where 8.6.8 resets it to the initial colour of the new space)",
]
SHARD_TIMEOUT = {"quick": 600, "thorough": 5400}
REL = 1e-9


def minimums(tier: str) -> Dict[str, int]:
    if tier == "quick":
        return {"evaluations": 1000, "distinct": 900, "glyphs_compared": 20000, "glyph_matrices_asserted": 15000, "form_invocations": 400,
                "malformed_ops": 1500, "split_contents_docs": 300, "seen:operators": 26, "glyphs_two_byte_font": 2000, "glyphs_cid32_two_byte": 60, "glyphs_type3_font_matrix": 2500, "pages_judged_after_an_earlier_page": 200}
    return {"evaluations": 30000, "distinct": 28000, "glyphs_compared": 600000, "glyph_matrices_asserted": 450000,
            "form_invocations": 25000, "malformed_ops": 45000, "split_contents_docs": 9000, "seen:operators": 26,
            "glyphs_two_byte_font": 50000, "glyphs_cid32_two_byte": 1500, "glyphs_type3_font_matrix": 60000, "pages_judged_after_an_earlier_page": 6000}


def shards(tier: str, seed: int) -> List[Dict[str, Any]]:
    q = tier == "quick"
    return [{"kind": "prog", "sub": i, "n": 38 if q else 420} for i in range(32 if q else 80)]


# --------------------------------------------------------------------------
# generators
# --------------------------------------------------------------------------
def dy(rng: random.Random, lo: int, hi: int, den: int = 8) -> F:
    return F(rng.randint(lo * den, hi * den), den)


CMS = [(1, 0, 0, 1), (0, 1, -1, 0), (-1, 0, 0, -1), (0, -1, 1, 0), (2, 0, 0, 2), (F(1, 2), 0, 0, F(1, 2)), (1, 0, 0, -1),
       (1, F(1, 2), 0, 1), (1, 0, F(1, 4), 1), (2, 0, 0, F(1, 2)), (3, 0, 0, 3), (-1, 0, 0, 1), (1, 1, -1, 1)]


def gen_matrix(rng: random.Random) -> List[F]:
    a, b, c, d = rng.choice(CMS)
    return [F(a), F(b), F(c), F(d), dy(rng, -60, 60, 4), dy(rng, -60, 60, 4)]


def gen_cid_font(rng: random.Random, rn: str, fname: str) -> Tuple[FontModel, Dict[str, Any]]:
    """A Type0 font with the Identity-H encoding: two-byte codes are the CIDs; advances from /W and /DW."""
    dw = rng.choice([1000, 500, 0, 750])
    cidw: Dict[int, int] = {}
    W: List[Any] = []
    for start in rng.sample([0, 32, 65, 0x2020, 0x4120, 0x7a7a, 300], 4):
        ws = [rng.choice([0, 250, 500, 1000, 125, 600]) for _ in range(rng.randint(1, 4))]
        W += [start, ws]
        for j, w in enumerate(ws):
            cidw[start + j] = w
    descent = rng.choice([-200, -250, 0])
    fd = {"Type": N("FontDescriptor"), "FontName": N(fname), "Flags": 4, "FontBBox": [0, descent, 1000, 800], "ItalicAngle": 0,
          "Ascent": 800, "Descent": descent, "CapHeight": 700, "StemV": 80, "MissingWidth": rng.choice([0, 333])}
    cid = {"Type": N("Font"), "Subtype": N("CIDFontType2"), "BaseFont": N(fname), "FontDescriptor": fd, "DW": dw, "W": W,
           "CIDSystemInfo": {"Registry": b"Adobe", "Ordering": b"Identity", "Supplement": 0}}
    d = {"Type": N("Font"), "Subtype": N("Type0"), "BaseFont": N(fname), "Encoding": N("Identity-H"), "DescendantFonts": [cid]}
    return FontModel(rn, fname, 0, [], 0, descent, cid_widths=cidw, dw=dw), d


def gen_fonts(rng: random.Random, prefix: str, k: int) -> Tuple[Dict[str, FontModel], Dict[str, Any]]:
    fonts: Dict[str, FontModel] = {}
    res: Dict[str, Any] = {}
    cid_at = rng.randrange(k) if rng.random() < 0.35 else -1
    for i in range(k):
        rn = "F%d" % (i + 1)
        if i == cid_at:
            fonts[rn], res[rn] = gen_cid_font(rng, rn, "%s-%s" % (prefix, rn))
            continue
        if rng.random() < 0.2:
            # a Type 3 font: widths are in glyph space and /FontMatrix maps them to text space (TJ adjustments stay in
            # thousandths of text space whatever the font matrix is, 9.4.3)
            sc = rng.choice([F(1, 1000), F(1, 100), F(1, 512), F(1, 100)])
            unit = int(1 / sc)
            widths = [rng.choice([0, unit // 4, unit // 2, unit, (unit * 3) // 4, unit // 8]) for _ in range(256)]
            dsc = rng.choice([-unit // 4, 0, -unit // 8])
            fname = "%s-%s" % (prefix, rn)
            fonts[rn] = FontModel(rn, fname, 0, widths, 0, dsc * sc * 1000, wscale=sc)
            shear = rng.choice([0, 0, Real(str(float(sc * 3 / 8))), Real(str(float(-sc / 4)))])   # an oblique font: c != 0 leaves both scales alone
            res[rn] = {"Type": N("Font"), "Subtype": N("Type3"), "FontBBox": [0, dsc, unit, unit + dsc], "FontMatrix": [Real(str(float(sc))), 0, shear, Real(str(float(sc))), 0, 0],
                       "CharProcs": {}, "Encoding": {"Type": N("Encoding"), "BaseEncoding": N("WinAnsiEncoding"), "Differences": []},
                       "FirstChar": 0, "LastChar": 255, "Widths": widths,
                       "FontDescriptor": {"Type": N("FontDescriptor"), "FontName": N(fname), "Flags": 32, "FontBBox": [0, dsc, unit, unit + dsc],
                                          "ItalicAngle": 0, "Ascent": unit + dsc, "Descent": dsc, "CapHeight": unit + dsc, "StemV": 80}}
            continue
        first = rng.choice([0, 32, 32, 40])
        n = rng.choice([95, 224, 60])
        widths = [rng.choice([0, 250, 500, 600, 333, 1000, 125, 722, 278, 556]) for _ in range(n)]
        missing = rng.choice([0, 300, 1000])
        descent = rng.choice([-200, -250, 0, -125])
        fname = "%s-%s" % (prefix, rn)
        fonts[rn] = FontModel(rn, fname, first, widths, missing, descent)
        res[rn] = font_widths(name=fname, first=first, widths=widths, subtype=rng.choice(["TrueType", "Type1"]),
                              missing=missing, descent=descent, encoding=N("WinAnsiEncoding"))
    return fonts, res


def gen_string(rng: random.Random, even: bool = False) -> bytes:
    n = rng.choice([1, 1, 2, 3, 5, 8])
    b = bytes(rng.choice(b"AB Cx y(z)\\12 ") if rng.random() < 0.7 else rng.randint(32, 126) for _ in range(n))
    if even:
        # a two-byte font may be current: whole codes only, and sometimes the two-byte code <0020> (CID 32), which must
        # NOT receive word spacing
        if len(b) % 2:
            b += b" "
        if rng.random() < 0.35:
            k = 2 * rng.randrange(len(b) // 2 + 1)
            b = b[:k] + b"\x00 " + b[k:]
    return b


TEXT_STATE_OPS = ["Tc", "Tw", "Tz", "TL", "Tf", "Ts"]
NARGS = {"Tc": 1, "Tw": 1, "Tz": 1, "TL": 1, "Ts": 1, "Tf": 2, "Td": 2, "TD": 2, "Tm": 6, "Tj": 1, "TJ": 1, "'": 1, '"': 3,
         "cm": 6, "g": 1, "rg": 3, "k": 4, "G": 1, "RG": 3, "K": 4}


class ProgGen:
    def __init__(self, rng: random.Random, fontnames: List[str], forms: List[str], p_bad: float, even: bool = False) -> None:
        self.even = even     # strings of even length (a two-byte font is among the fonts)
        self.rng = rng
        self.fontnames = fontnames
        self.forms = forms
        self.p_bad = p_bad
        self.ops: List[Op] = []

    def good(self, name: str) -> Op:
        rng = self.rng
        if name == "Tc":
            return Op(name, [dy(rng, -2, 4)])
        if name == "Tw":
            return Op(name, [dy(rng, -3, 8)])
        if name == "Tz":
            return Op(name, [rng.choice([100, 100, 50, 200, 25, 150, 75, 400])])
        if name == "TL":
            return Op(name, [dy(rng, -10, 20)])
        if name == "Ts":
            return Op(name, [dy(rng, -5, 5)])
        if name == "Tf":
            return Op(name, [Name(rng.choice(self.fontnames)), rng.choice([10, 12, 8, 1, 24, F(1, 2), -12, F(19, 2), 16])])
        if name in ("Td", "TD"):
            # zero offsets on purpose too: `0 0 Td` returns the pen to the start of the line
            return Op(name, [F(0) if rng.random() < 0.2 else dy(rng, -40, 60), F(0) if rng.random() < 0.3 else dy(rng, -40, 40)])
        if name in ("Tm", "cm"):
            return Op(name, gen_matrix(rng))
        if name in ("Tj", "'"):
            return Op(name, [gen_string(rng, self.even)])
        if name == '"':
            return Op(name, [dy(rng, -2, 6), dy(rng, -1, 3), gen_string(rng, self.even)])
        if name == "TJ":
            arr: List[Any] = []
            for _ in range(rng.randint(1, 5)):
                arr.append(gen_string(rng, self.even) if rng.random() < 0.6 else rng.choice([dy(rng, -300, 300), rng.randint(-500, 500)]))
            return Op(name, [arr])
        if name in ("g", "G"):
            return Op(name, [dy(rng, 0, 1)])
        if name in ("rg", "RG"):
            return Op(name, [dy(rng, 0, 1) for _ in range(3)])
        if name in ("k", "K"):
            return Op(name, [dy(rng, 0, 1) for _ in range(4)])
        raise ValueError(name)

    def bad(self, name: str) -> Op:
        """A malformed occurrence: too few operands (argument stack is empty before it) or ill-typed ones."""
        rng = self.rng
        g = self.good(name)
        n = NARGS[name]
        how = rng.choice(["missing", "illtyped"])
        if how == "missing":
            k = rng.randint(0, n - 1)
            return Op(name, g.args[n - k:] if k else [], bad=True, note="missing")
        args = list(g.args)
        i = rng.randrange(n)
        if name == '"':
            # the string operand is always made unusable (otherwise the operator would legitimately show glyphs of its
            # own), a numeric operand additionally in half of the cases
            if i != 2 and rng.random() < 0.5:
                args[i] = rng.choice([Name("x"), b"str"])
            i = 2
        if name in ("Tj", "'", "TJ") or (name == '"' and i == 2):
            args[i] = rng.choice([Name("notastring"), F(5), [F(3), Name("x")] if name != "TJ" else Name("notanarray")])
        elif name == "Tf" and i == 0:
            args[i] = rng.choice([F(7), b"F1", Name("NoSuchFont")])
        else:
            args[i] = rng.choice([Name("x"), b"str", [F(1)], None])
        return Op(name, args, bad=True, note="illtyped")

    def colour(self) -> None:
        """g rg k G RG K, or a device colour space selected by cs/CS followed by sc/scn/SC/SCN (q and Q may come
        between the two: the colour space is part of the graphics state)."""
        rng = self.rng
        if rng.random() < 0.6:
            self.emit(rng.choice(["g", "rg", "k", "G", "RG", "K"]))
            return
        fill = rng.random() < 0.6
        space, ncomp = rng.choice([("DeviceGray", 1), ("DeviceRGB", 3), ("DeviceCMYK", 4)])
        self.ops.append(Op("cs" if fill else "CS", [Name(space)]))
        if rng.random() < 0.3:
            self.ops.append(Op("q"))
            self.ops.append(Op("Q"))
        self.ops.append(Op(rng.choice(["sc", "scn"] if fill else ["SC", "SCN"]), [dy(rng, 0, 1) for _ in range(ncomp)]))

    def emit(self, name: str) -> None:
        if self.rng.random() < self.p_bad and name in NARGS:
            self.ops.append(self.bad(name))
        self.ops.append(self.good(name))

    def text_object(self) -> None:
        rng = self.rng
        self.ops.append(Op("BT"))
        if rng.random() < 0.85:
            self.emit("Tf")
        for _ in range(rng.randint(2, 12)):
            r = rng.random()
            if r < 0.25:
                self.emit(rng.choice(TEXT_STATE_OPS))
            elif r < 0.5:
                name = rng.choice(["Td", "TD", "Tm", "T*", "Td"])
                if name == "T*":
                    self.ops.append(Op("T*"))
                else:
                    self.emit(name)
            elif r < 0.92:
                self.emit(rng.choice(["Tj", "Tj", "TJ", "TJ", "'", '"']))
            else:
                self.colour()
        self.ops.append(Op("ET"))

    def build(self, nseg: int, depth_q: int = 0, first_tf: bool = True) -> List[Op]:
        rng = self.rng
        if first_tf:
            self.ops.append(self.good("Tf"))
        open_q = 0
        for _ in range(nseg):
            r = rng.random()
            if r < 0.45:
                self.text_object()
            elif r < 0.55:
                self.ops.append(Op("q"))
                open_q += 1
            elif r < 0.65 and open_q:
                self.ops.append(Op("Q"))
                open_q -= 1
            elif r < 0.75:
                self.emit("cm")
            elif r < 0.83:
                self.colour()
            elif r < 0.9:
                self.emit(rng.choice(TEXT_STATE_OPS))
            elif self.forms:
                self.ops.append(Op("Do", [Name(rng.choice(self.forms))]))
            else:
                self.text_object()
        while open_q:
            self.ops.append(Op("Q"))
            open_q -= 1
        return self.ops


def form_preamble(rng: random.Random, fontnames: List[str]) -> List[Op]:
    """Inside a form only state set inside the form is asserted: set all of it first."""
    g = ProgGen(rng, fontnames, [], 0.0)
    return [g.good(n) for n in ("Tc", "Tw", "Tz", "TL", "Ts", "Tf")] + [g.good(rng.choice(["g", "rg", "k"])), g.good(rng.choice(["G", "RG", "K"]))]


def gen_case(seed_str: str, tier: str) -> Dict[str, Any]:
    """-> {"pdf": bytes, "model": TextModel, "ops": [...], "split": k, ...}"""
    rng = random.Random(seed_str)
    doc = Doc()
    page_fonts, page_font_res = gen_fonts(rng, "Pg", rng.choice([2, 3]))
    p_bad = rng.choice([0.0, 0.08, 0.2])

    def make_forms(level: int, outer_fonts: Dict[str, FontModel], tag: str) -> Tuple[Dict[str, Any], Dict[str, Any]]:
        """-> (model forms, resource XObject dict)"""
        mforms: Dict[str, Any] = {}
        xres: Dict[str, Any] = {}
        if level > 3:
            return mforms, xres
        for i in range(rng.choice([0, 1, 1, 2]) if level > 1 else rng.choice([0, 1, 2])):
            name = "Fm%d" % (i + 1)
            own_res = rng.random() < 0.65
            if own_res:
                ffonts, ffont_res = gen_fonts(rng, "%s%s" % (tag, name), rng.choice([1, 2]))
            else:
                ffonts, ffont_res = outer_fonts, None
            sub_m, sub_x = make_forms(level + 1, ffonts, tag + name) if (own_res and rng.random() < 0.5) else ({}, {})
            pg = ProgGen(rng, sorted(ffonts), sorted(sub_m), p_bad, even=any(f.multibyte for f in ffonts.values()))
            pg.ops = form_preamble(rng, sorted(ffonts))
            ops = pg.build(rng.randint(2, 5), first_tf=False)
            matrix = gen_matrix(rng) if rng.random() < 0.7 else None
            d: Dict[str, Any] = {"Type": N("XObject"), "Subtype": N("Form"), "BBox": [-1000, -1000, 2000, 2000]}
            if matrix is not None:
                d["Matrix"] = [x if x.denominator != 1 else int(x) for x in matrix]
                d["Matrix"] = [float(x) if isinstance(x, F) else x for x in d["Matrix"]]
            if own_res:
                r: Dict[str, Any] = {"Font": ffont_res}
                if sub_x:
                    r["XObject"] = sub_x
                d["Resources"] = r
            xres[name] = doc.add(Stream(d, b" ".join(emit_tokens(ops))))
            mforms[name] = {"matrix": tuple(matrix) if matrix is not None else IDENT, "ops": ops,
                            "fonts": ffonts if own_res else None, "forms": sub_m}
        return mforms, xres

    mforms, xres = make_forms(1, page_fonts, "")
    pg = ProgGen(rng, sorted(page_fonts), sorted(mforms), p_bad, even=any(f.multibyte for f in page_fonts.values()))
    ops = pg.build(rng.randint(4, 12) if tier == "quick" else rng.randint(4, 22))
    toks = emit_tokens(ops)
    # one stream, or a Contents array split at white-space positions
    nsplit = rng.choice([0, 0, 1, 2, 3, 6])
    cuts = sorted(rng.sample(range(1, len(toks)), min(nsplit, max(len(toks) - 1, 0)))) if len(toks) > 1 else []
    parts: List[bytes] = []
    prev = 0
    for c in cuts + [len(toks)]:
        parts.append(toks[prev:c])
        prev = c
    fixed: List[bytes] = []
    for i, part in enumerate(parts):
        b = b" ".join(part)
        if i > 0 and not fixed[-1].endswith((b" ", b"\n")):
            b = rng.choice([b" ", b"\n", b"\r\n"]) + b      # the separating white space goes to this side
        if i < len(parts) - 1 and rng.random() < 0.5:
            b = b + rng.choice([b" ", b"\n", b"\r\n "])      # ... or stays at the end of this stream
        fixed.append(b)
    res: Dict[str, Any] = {"Font": page_font_res}
    if xres:
        res["XObject"] = xres
    cat = doc.alloc()
    pages = doc.alloc()
    crefs = [doc.add(Stream({}, s)) for s in fixed]
    mediabox = [0, 0, 612, 792]
    kids = []
    if rng.random() < 0.25:
        # an earlier page, interpreted first by the same interpreter, that leaves text state and colours behind: the judged
        # page starts from the initial state all the same (9.3.1: the text state parameters are initialised per page)
        fn = sorted(page_fonts)[0].encode()
        before = b"7 Tc 3 Tw 50 Tz 14 TL 5 Ts /" + fn + b" 9 Tf 0.5 g 1 0 0 RG BT 10 10 Td (" + (b"ab" if not page_fonts[sorted(page_fonts)[0]].multibyte else b"a b ") + b") Tj ET"
        kids.append(doc.add({"Type": N("Page"), "Parent": pages, "MediaBox": mediabox, "Resources": res, "Contents": doc.add(Stream({}, before))}))
    page = doc.add({"Type": N("Page"), "Parent": pages, "MediaBox": mediabox, "Resources": res,
                    "Contents": crefs[0] if len(crefs) == 1 else crefs})
    kids.append(page)
    doc.set(pages, {"Type": N("Pages"), "Kids": kids, "Count": len(kids)})
    doc.set(cat, {"Type": N("Catalog"), "Pages": pages})
    doc.trailer["Root"] = cat
    model = TextModel(page_fonts, mforms)
    return {"pdf": doc.build(), "model": model, "ops": ops, "nstreams": len(fixed), "p_bad": p_bad, "forms": mforms,
            "content": b"|".join(fixed), "pages_before": len(kids) - 1}


# --------------------------------------------------------------------------
# observation
# --------------------------------------------------------------------------
_DO_LOG: List[Tuple[Any, Any]] = []


def _state_sig(it: Any) -> Any:
    ts, gs = it.textstate, it.graphicstate
    return (tuple(it.ctm), tuple(it.device.ctm) if it.device.ctm is not None else None,
            (ts.font.fontname if ts.font is not None else None, ts.fontsize, ts.charspace, ts.wordspace, ts.scaling, ts.leading,
             ts.render, ts.rise, tuple(ts.matrix), tuple(ts.linematrix)),
            (gs.linewidth, gs.scolor, gs.ncolor, repr(gs.dash)), len(it.gstack))


def _interp_class():
    from pdfminer.pdfinterp import PDFPageInterpreter

    class RecInterp(PDFPageInterpreter):
        def do_Do(self, xobjid_arg):  # noqa: ANN001
            before = _state_sig(self)
            PDFPageInterpreter.do_Do(self, xobjid_arg)
            _DO_LOG.append((before, _state_sig(self)))

    return RecInterp


def observe(pdf: bytes):
    from pdfminer.converter import PDFPageAggregator
    from pdfminer.layout import LTChar, LTFigure
    from pdfminer.pdfinterp import PDFResourceManager
    from pdfminer.pdfpage import PDFPage

    del _DO_LOG[:]
    rm = PDFResourceManager()
    dev = PDFPageAggregator(rm, laparams=None)
    it = _interp_class()(rm, dev)
    pages = list(PDFPage.get_pages(io.BytesIO(pdf)))
    for page in pages[:-1]:           # earlier pages go through the same interpreter; the last page is judged
        it.process_page(page)
    del _DO_LOG[:]
    it.process_page(pages[-1])
    lt = dev.get_result()
    chars: List[Any] = []

    def walk(c: Any) -> None:
        for x in c:
            if isinstance(x, LTChar):
                chars.append(x)
            elif isinstance(x, LTFigure):
                walk(x)

    walk(lt)
    return chars, list(_DO_LOG)


def close(a: float, b: F, scale: float = 1.0) -> bool:
    fb = float(b)
    return math.isclose(a, fb, rel_tol=REL, abs_tol=REL * max(1.0, scale))


def colour_matches(got: Any, exp: Any) -> bool:
    if exp is NEVER_SET or exp is UNKNOWN:
        return True
    if isinstance(exp, tuple):
        return isinstance(got, tuple) and len(got) == len(exp) and all(float(g) == float(e) for g, e in zip(got, exp))
    return not isinstance(got, tuple) and got is not None and float(got) == float(exp)


def compare(case: Dict[str, Any], rec: Any = None) -> List[Tuple[str, str]]:
    fails: List[Tuple[str, str]] = []
    exp: List[Glyph] = case["model"].run(case["ops"], ctm=IDENT)
    try:
        chars, dolog = observe(case["pdf"])
    except Exception as e:  # noqa: BLE001
        tb = e.__traceback__
        fn = "?"
        while tb is not None:
            if "pdfminer" in tb.tb_frame.f_code.co_filename:
                fn = tb.tb_frame.f_code.co_name
            tb = tb.tb_next
        return [("exception:%s:%s" % (type(e).__name__, fn), "%s: %s" % (type(e).__name__, e))]
    for before, after in dolog:
        if rec is not None:
            rec.count("form_invocations")
        if before != after:
            names = ["ctm", "device.ctm", "textstate", "graphicstate", "gstack depth"]
            diff = [names[i] for i in range(5) if before[i] != after[i]]
            fails.append(("state_after_form:" + "+".join(diff), "state changed by Do: %s: before %r after %r" % (diff, before, after)))
            break
    if len(chars) != len(exp):
        # find the first divergence in the code sequence
        got_txt = [c.get_text() for c in chars]
        exp_txt = [("(cid:%d)" % g.code) if (isinstance(g.font, FontModel) and g.font.multibyte) else chr(g.code) for g in exp]
        i = 0
        while i < min(len(got_txt), len(exp_txt)) and got_txt[i] == exp_txt[i]:
            i += 1
        fails.append(("glyph_count", "expected %d glyphs, got %d; first divergence at #%d (expected %r got %r)" % (
            len(exp), len(chars), i, exp_txt[i:i + 5], got_txt[i:i + 5])))
        return fails
    for g, c in zip(exp, chars):
        if rec is not None:
            rec.count("glyphs_compared")
        where = "glyph #%d code %d (%s) depth %d" % (g.index, g.code, g.fontname, g.depth)
        mb = isinstance(g.font, FontModel) and g.font.multibyte
        if rec is not None and isinstance(g.font, FontModel) and g.font.wscale != F(1, 1000):
            rec.count("glyphs_type3_font_matrix")
        if rec is not None and mb:
            rec.count("glyphs_two_byte_font")
            if g.code == 32:
                rec.count("glyphs_cid32_two_byte")
        exp_text = "(cid:%d)" % g.code if mb else (chr(g.code) if 32 <= g.code <= 126 else None)
        if exp_text is not None and isinstance(g.font, FontModel) and c.get_text() != exp_text:
            fails.append(("glyph_text", "%s: text %r expected %r" % (where, c.get_text(), exp_text)))
            break
        if g.fontname is not UNKNOWN and c.fontname != g.fontname:
            fails.append(("glyph_font", "%s: fontname %r" % (where, c.fontname)))
            break
        if g.adv is not UNKNOWN and not close(c.adv, g.adv, float(abs(g.adv))):
            fails.append(("glyph_adv", "%s: adv %r expected %s (Tfs=%s Th=%s)" % (where, c.adv, float(g.adv), g.Tfs, g.Th)))
            break
        if not colour_matches(c.graphicstate.ncolor, g.fill):
            fails.append(("glyph_fill_colour", "%s: ncolor %r expected %r" % (where, c.graphicstate.ncolor, g.fill)))
            break
        if g.fill_cs is not UNKNOWN and g.fill is not NEVER_SET:
            if rec is not None:
                rec.count("glyph_fill_spaces_asserted")
            if getattr(c.ncs, "name", None) != g.fill_cs:
                fails.append(("glyph_fill_colour_space", "%s: fill colour space %r expected %r" % (where, getattr(c.ncs, "name", None), g.fill_cs)))
                break
        if g.pen_known:
            if rec is not None:
                rec.count("glyph_matrices_asserted")
            scale = max(abs(float(x)) for x in g.matrix)
            if not all(close(cv, gv, scale) for cv, gv in zip(c.matrix, g.matrix)):
                kind = "in_form" if g.depth else "page"
                fails.append(("glyph_matrix:" + kind, "%s: matrix %r expected %r" % (where, tuple(c.matrix), tuple(float(x) for x in g.matrix))))
                break
            # bbox and size follow from matrix, adv, size, rise and the declared descent
            if g.adv is not UNKNOWN and g.rise is not UNKNOWN and isinstance(g.font, FontModel):
                desc = F(g.font.descent) / 1000 * g.Tfs
                x0, y0, x1, y1 = F(0), desc + g.rise, g.adv, desc + g.rise + g.Tfs
                pts = [apply_pt(g.matrix, p) for p in ((x0, y0), (x0, y1), (x1, y0), (x1, y1))]
                ex = (min(p[0] for p in pts), min(p[1] for p in pts), max(p[0] for p in pts), max(p[1] for p in pts))
                if not all(close(cv, ev, scale) for cv, ev in zip(c.bbox, ex)):
                    fails.append(("glyph_bbox", "%s: bbox %r expected %r" % (where, c.bbox, tuple(float(x) for x in ex))))
                    break
                a, b, cc, d, _, _ = g.matrix
                if b == 0 and cc == 0:
                    if not close(c.size, abs(d * g.Tfs), scale):
                        fails.append(("glyph_size", "%s: size %r expected %s" % (where, c.size, float(abs(d * g.Tfs)))))
                        break
    return fails


def run_shard(spec: Dict[str, Any], rec) -> None:
    tier = spec["tier"]
    for i in range(spec["n"]):
        s = "C05/%d/%d/%d" % (spec["seed"], spec["sub"], i)
        case = gen_case(s, tier)
        fails = compare(case, rec)
        opnames = {op.name for op in case["ops"]}
        st = [case["forms"]]
        while st:
            fm = st.pop()
            for f in fm.values():
                opnames |= {op.name for op in f["ops"]}
                st.append(f["forms"])
        for n in opnames:
            rec.see("operators", n)
        nbad = sum(1 for op in case["ops"] if op.bad)
        rec.count("malformed_ops", nbad)
        if case["nstreams"] > 1:
            rec.count("split_contents_docs")
        if case.get("pages_before"):
            rec.count("pages_judged_after_an_earlier_page")
        nglyph = len(case["model"].glyphs)
        rec.case(chash(case["content"]), nglyph >= 1 and len(opnames) >= 5)
        for key, detail in fails:
            rec.fail(key, {"seed_str": s, "tier": tier}, detail + " | content=%r" % case["content"][:1500])
        if rec.want_sample() and 30 < len(case["content"]) < 500:
            rec.sample({"content_streams": case["content"], "glyphs": nglyph, "malformed": nbad})


def replay(case: Dict[str, Any]) -> List[Tuple[str, str]]:
    c = gen_case(case["seed_str"], case.get("tier", "quick"))
    return compare(c, None)
