"""C11 - converters: the plain-text output is the layout tree's text, the XML output is
well-formed and reproduces the tree, text and binary sinks agree.

Workload (vf.gen.c11gen): generated documents whose glyph text (ToUnicode CMaps of simple and
Type0 fonts, WinAnsi codes, undefined codes), font names and XObject names carry XML-special
strings, Latin-1 / cp1252 / Shift-JIS / BMP / non-BMP characters, control characters, tab/CR/LF,
very long and empty names; form XObjects nested up to 3 deep, image XObjects, inline images,
rect / line / curve paths, 1-3 pages, rotated pages; LAParams variety incl. None.

Observation: pdfminer.high_level.extract_text_to_fp (text and xml; StringIO / BytesIO / real text-mode and
binary-mode files; codecs; strip_control on/off; page_numbers / maxpages) and extract_text.  A recorder
wrapped around TextConverter.receive_layout / XMLConverter.receive_layout keeps the LTPage each
converter is asked to serialise (the converter's own method runs unchanged).

Oracle: (1) serialisation against the tree of the same run: text == concatenation of the tree's LTText
leaves, LF after each LTTextBox, FF after each page; the XML parses with expat and is walked in lock
step with the tree (tags, attributes, character data, <layout> == page.groups), modulo exactly what
XML 1.0 itself normalises (2.11 line ends, 3.3.3 attribute values); binary output decoded with the
declared codec must satisfy the same oracle, and expat is also fed the bytes where it can honour the
declaration.  (2) option plumbing: the serialised tree equals the tree of extract_pages
(PDFPageAggregator for laparams=None) on the same bytes and options - exactly, or, because the
analysis breaks ties between equally distant boxes by id(), as the same multiset of items per page.
"""
from __future__ import annotations

import codecs
import io
import re
from typing import Any, Dict, List, Optional, Tuple
from xml.parsers import expat

from vf.common import chash, short
from vf.gen import c11gen

ID = "C11"
LEVEL = "exploration"
DESIGN_REF = "DESIGN.md#C11"
TECHNIQUE = ("runtime monitoring: generated documents serialised by the real converters; the layout tree of the same analysis is "
             "the reference; expat well-formedness + lock-step element walk; codec round trips through stdlib codecs")
RULE = (
    "random documents (1-3 pages; 2-7 blocks per page / 1-4 per form: paragraphs with Td/T*/TJ, stacked and rotated glyphs, "
    "rect/line/curve/multi-subpath paths, form XObjects nested <=3, image XObjects, inline images) with 1-3 fonts per scope "
    "(simple + ToUnicode, plain WinAnsi, standard-14, descriptor-less, Type0 Identity-H/V + ToUnicode); ToUnicode targets and "
    "font/XObject names drawn from XML-special strings and a per-document character profile (ascii, latin1, cp1252, sjis, jis, kr, zh, any incl. "
    "non-BMP), optionally control characters, tab/CR/LF, U+FFFE/FFFF, names of 1500-6000 characters, empty names, non-UTF-8 names; "
    "each document x {laparams random, None} x {text, xml} x {text sink, binary sink with 2-3 codecs that round-trip the output, one of them an escape-sequence codec (iso2022_jp/_jp_2/_kr, hz) whenever one is able and the output is not pure ASCII; "
    "85% StringIO/BytesIO, 15% real files} x strip_control, plus extract_text (given and default laparams) and text-sink runs (extract_text_to_fp into StringIO/text file, "
    "extract_text) that pass a narrow codec= (ascii, latin-1, cp1252, cp437, koi8-r, shift_jis, gbk, euc_kr, iso2022_jp, hz, big5; one that "
    "cannot encode the document's text whenever there is one): a str sink must receive the tree's text unchanged whatever the codec; "
    "XML into a text sink only accepts codec=None, so no codec is varied there; 30% of the documents also go through "
    "tools/pdf2txt.py -o FILE -c CODEC -t text|xml|html (+ the layout and page options) with a codec other than utf-8: the file must satisfy "
    "the same oracle as a binary sink with that codec (html: equal the library's output with that codec and declare it); about 8% of the "
    "pages show only blanks (analysed, no text box: groups == [] and an empty <layout>); and "
    "page_numbers/maxpages. One evaluation = one (document, configuration) comparison; "
    "distinct = distinct (pdf, configuration); non-trivial = the selected pages show >=1 glyph and the document carries a "
    "non-alphanumeric feature in text or names, or a figure. Not generated: font names given as PDF strings, lone surrogates, "
    "documents that make the interpreter raise (C13), HTML/hOCR/tag output."
)
ASSUMPTIONS = [
    "TextConverter/extract_text write str to a text sink as it is: the codec argument only determines the bytes of a binary sink (observed on the unchanged tree: compatible_encode_method returns a str argument unchanged, XMLConverter rejects a codec together with a text sink); a text sink is therefore required to receive the tree's text for every codec, including codecs that cannot represent it",
    "the layout tree of PDFPageAggregator/extract_pages with the same options is the tree the converters serialise (same analysis, deterministic; C08/C12 check the analysis itself)",
    "xml.parsers.expat decides XML 1.0 well-formedness; stdlib codecs decide what a codec can represent",
    "XML 1.0 2.11 / 3.3.3: CR and CRLF in character data read back as LF, tab/CR/LF in attribute values read back as spaces; the comparison is modulo exactly that",
    "with strip_control=False a document whose text or names contain characters outside the XML 1.0 Char production is not required to give well-formed output; it is compared after substituting U+E000 for those characters",
    "the serialisation is compared with the tree of the same run (recorded at receive_layout); the separately extracted extract_pages tree is compared modulo order, box index and group shape, which the analysis decided by id() on ties before the sequence-number fix (counters reference_trees_identical / _tie_reordered show which case occurred)",
]
SHARD_TIMEOUT = {"quick": 600, "thorough": 5400}

PLACEHOLDER = "\ue000"
CODECS_ALWAYS = ["utf-8", "utf-16", "utf-32", "utf-16-le", "utf-16-be", "utf-32-be", "gb18030", "utf-8-sig"]
CODECS_IF_ABLE = ["latin-1", "cp1252", "shift_jis", "ascii", "euc_jp", "iso8859-15", "cp932", "euc_kr", "gb2312",
                  "iso2022_jp", "iso2022_jp_2", "iso2022_kr", "hz", "utf-7"]
# codecs with shift states / escape sequences: what a piece encodes to depends on what was written before it
ESCAPE_CODECS = ["iso2022_jp", "iso2022_jp_2", "iso2022_kr", "hz"]
EXPAT_BYTES = {"utf-8", "utf-16", "latin-1", "cp1252", "ascii", "iso8859-15"}     # encodings expat can be fed directly


def minimums(tier: str) -> Dict[str, int]:
    if tier == "quick":
        return {"evaluations": 4000, "distinct": 3500, "docs": 500, "text_runs": 1800, "xml_runs": 1500, "xml_elements_compared": 150000,
                "xml_attrs_compared": 400000, "xml_chardata_compared": 100000, "xml_wellformed_demanded": 1000, "xml_marked_runs": 200,
                "xml_bytes_parsed": 200, "binary_text_runs": 900, "binary_xml_runs": 600, "file_sink_runs": 300, "escape_codec_text_runs": 60, "text_sink_codec_runs": 800, "pdf2txt_runs": 90, "pdf2txt_text_runs": 25, "pdf2txt_xml_runs": 25, "pdf2txt_html_runs": 8, "empty_layout_pages": 10, "text_sink_lossy_codec_runs": 600, "seen:text_sink_codecs": 8, "escape_codec_xml_runs": 60,
                "reference_trees_compared": 3500, "text_box_newlines": 10000, "text_formfeeds": 1000,
                "docs_xmlspecial_text": 200, "docs_xmlspecial_fontname": 150, "docs_xmlspecial_figname": 80, "docs_nonbmp": 25,
                "docs_ctrl_text": 60, "docs_ctrl_name": 40, "docs_nonchar_text": 8, "docs_nested_figures": 40, "docs_images": 80,
                "docs_long_name": 8, "docs_ws_name": 15, "docs_page_selection": 40, "laparams_none_runs": 300, "vertical_boxes": 5,
                "layout_elements": 200, "seen:xml_tags": 12, "seen:codecs": 28}
    return {"evaluations": 100000, "distinct": 85000, "docs": 12800, "text_runs": 50000, "xml_runs": 40000, "xml_elements_compared": 4000000,
            "xml_attrs_compared": 10000000, "xml_chardata_compared": 2500000, "xml_wellformed_demanded": 30000, "xml_marked_runs": 6000,
            "xml_bytes_parsed": 6000, "binary_text_runs": 25000, "binary_xml_runs": 18000, "file_sink_runs": 9000, "escape_codec_text_runs": 1800, "text_sink_codec_runs": 20000, "pdf2txt_runs": 2400, "pdf2txt_text_runs": 800, "pdf2txt_xml_runs": 800, "pdf2txt_html_runs": 300, "empty_layout_pages": 300, "text_sink_lossy_codec_runs": 15000, "seen:text_sink_codecs": 11, "escape_codec_xml_runs": 1800,
            "reference_trees_compared": 85000, "text_box_newlines": 300000, "text_formfeeds": 30000,
            "docs_xmlspecial_text": 6000, "docs_xmlspecial_fontname": 4500, "docs_xmlspecial_figname": 2400, "docs_nonbmp": 1200,
            "docs_ctrl_text": 1800, "docs_ctrl_name": 1200, "docs_nonchar_text": 300, "docs_nested_figures": 1200, "docs_images": 2400,
            "docs_long_name": 250, "docs_ws_name": 500, "docs_page_selection": 1200, "laparams_none_runs": 9000, "vertical_boxes": 200,
            "layout_elements": 6000, "seen:xml_tags": 12, "seen:codecs": 40}


def shards(tier: str, seed: int) -> List[Dict[str, Any]]:
    q = tier == "quick"
    return [{"kind": "docs", "sub": i, "n": 16 if q else 200} for i in range(32 if q else 64)]


# --------------------------------------------------------------------------
# XML 1.0 facts (written from the recommendation, 5th edition)
# --------------------------------------------------------------------------
def is_xml_char(c: str) -> bool:
    """[2] Char ::= #x9 | #xA | #xD | [#x20-#xD7FF] | [#xE000-#xFFFD] | [#x10000-#x10FFFF]"""
    o = ord(c)
    return o in (0x9, 0xA, 0xD) or 0x20 <= o <= 0xD7FF or 0xE000 <= o <= 0xFFFD or 0x10000 <= o <= 0x10FFFF


def has_illegal(s: str) -> bool:
    return any(not is_xml_char(c) for c in s)


def drop_illegal(s: str) -> str:
    return "".join(c for c in s if is_xml_char(c))


def mark_illegal(s: str) -> str:
    return "".join(c if is_xml_char(c) else PLACEHOLDER for c in s)


def norm_chardata(s: str) -> str:
    """2.11: the parser passes CRLF and lone CR as LF."""
    return s.replace("\r\n", "\n").replace("\r", "\n")


def norm_attr(s: str) -> str:
    """3.3.3 (CDATA attributes): after 2.11, each of #x20 #xD #xA #x9 becomes #x20."""
    return norm_chardata(s).replace("\n", " ").replace("\t", " ")


class Node:
    __slots__ = ("tag", "attrs", "text", "children")

    def __init__(self, tag: str, attrs: Dict[str, str]) -> None:
        self.tag = tag
        self.attrs = attrs
        self.text = ""          # character data directly inside this element (all pieces concatenated)
        self.children: List["Node"] = []


def parse_xml(data: Any) -> Tuple[Optional[Node], Optional[Tuple[str, int, int, int]]]:
    """-> (root, None) or (None, (message, line, column, byte/char offset))."""
    p = expat.ParserCreate()
    p.buffer_text = True
    stack: List[Node] = []
    root: List[Node] = []

    def start(name: str, attrs: Dict[str, str]) -> None:
        n = Node(name, dict(attrs))
        if stack:
            stack[-1].children.append(n)
        else:
            root.append(n)
        stack.append(n)

    def end(name: str) -> None:
        stack.pop()

    def chars(d: str) -> None:
        if stack:
            stack[-1].text += d

    p.StartElementHandler = start
    p.EndElementHandler = end
    p.CharacterDataHandler = chars
    try:
        p.Parse(data, True)
    except expat.ExpatError as e:
        return None, (expat.ErrorString(e.code), e.lineno, e.offset, p.ErrorByteIndex)
    except (UnicodeError, ValueError, LookupError) as e:       # e.g. an encoding declaration expat cannot honour
        return None, ("%s: %s" % (type(e).__name__, e), 0, 0, 0)
    return (root[0] if root else None), None


# --------------------------------------------------------------------------
# observation
# --------------------------------------------------------------------------
def make_laparams(d: Optional[Dict[str, Any]]) -> Any:
    from pdfminer.layout import LAParams

    return None if d is None else LAParams(**d)


def _where(e: BaseException) -> str:
    tb = e.__traceback__
    fn = "?"
    while tb is not None:
        if "pdfminer" in tb.tb_frame.f_code.co_filename:
            fn = tb.tb_frame.f_code.co_name
        tb = tb.tb_next
    return "%s:%s" % (type(e).__name__, fn)


def ref_pages(pdf: bytes, la: Optional[Dict[str, Any]], sel: Dict[str, Any]) -> List[Any]:
    """The reference trees.  extract_pages for a given LAParams; the documented device
    (PDFPageAggregator) directly for laparams=None, which extract_pages would replace by defaults."""
    if la is not None:
        from pdfminer.high_level import extract_pages

        return list(extract_pages(io.BytesIO(pdf), laparams=make_laparams(la), **sel))
    from pdfminer.converter import PDFPageAggregator
    from pdfminer.pdfinterp import PDFPageInterpreter, PDFResourceManager
    from pdfminer.pdfpage import PDFPage

    rm = PDFResourceManager()
    dev = PDFPageAggregator(rm, laparams=None)
    it = PDFPageInterpreter(rm, dev)
    out = []
    for page in PDFPage.get_pages(io.BytesIO(pdf), sel.get("page_numbers"), maxpages=sel.get("maxpages", 0)):
        it.process_page(page)
        out.append(dev.get_result())
    return out


_SEEN: List[Any] = []


def _install_recorder() -> None:
    """Record the very LTPage each converter is asked to serialise (the converter's own method runs unchanged).

    The layout analysis breaks ties between equally distant boxes by id() of the objects, so a second
    analysis of the same bytes may order boxes differently; the serialisation oracle therefore uses
    the tree of the same run, and the separately extracted reference tree is compared modulo order."""
    from pdfminer import converter

    if getattr(converter, "_c11_recorder", False):
        return
    for cls in (converter.TextConverter, converter.XMLConverter):
        orig = cls.receive_layout

        def wrapped(self: Any, ltpage: Any, _orig: Any = orig) -> Any:
            _SEEN.append(ltpage)
            return _orig(self, ltpage)

        cls.receive_layout = wrapped  # type: ignore[method-assign]
    converter._c11_recorder = True  # type: ignore[attr-defined]


def run_converter(pdf: bytes, output_type: str, la: Optional[Dict[str, Any]], sel: Dict[str, Any], codec: Optional[str],
                  strip: bool = False, filesink: bool = False, sink_codec: Optional[str] = None) -> Tuple[Any, List[Any]]:
    """extract_text_to_fp into a text sink (codec None) or a binary sink (codec given) -> (str / bytes, serialised LTPages).

    The sink is a StringIO / BytesIO, or (filesink) a real temporary file opened in text mode (UTF-8, no newline
    translation) / binary mode."""
    from pdfminer.high_level import extract_text_to_fp

    _install_recorder()
    binary = codec is not None
    if filesink:
        import tempfile

        out: Any = tempfile.TemporaryFile("w+b") if binary else tempfile.TemporaryFile("w+", encoding="utf-8", newline="")
    else:
        out = io.BytesIO() if binary else io.StringIO()
    kw: Dict[str, Any] = dict(sel)
    if binary:
        kw["codec"] = codec
    elif output_type == "text" and sink_codec is not None:
        kw["codec"] = sink_codec   # a codec given together with a text sink: the sink still receives str, unchanged
    elif output_type == "xml":
        kw["codec"] = None         # the XML converter insists on "no codec" for a text sink
    if output_type == "xml":
        kw["strip_control"] = strip
    del _SEEN[:]
    try:
        extract_text_to_fp(io.BytesIO(pdf), out, output_type=output_type, laparams=make_laparams(la), **kw)
        if filesink:
            out.seek(0)
            return out.read(), list(_SEEN)
        return out.getvalue(), list(_SEEN)
    finally:
        out.close()


def run_extract_text(pdf: bytes, la: Optional[Dict[str, Any]], sel: Dict[str, Any], codec: Optional[str] = None) -> Tuple[str, List[Any]]:
    from pdfminer.high_level import extract_text

    _install_recorder()
    del _SEEN[:]
    kw: Dict[str, Any] = dict(sel)
    if codec is not None:
        kw["codec"] = codec
    out = extract_text(io.BytesIO(pdf), laparams=make_laparams(la), **kw)
    return out, list(_SEEN)


_TOOLS: Dict[str, Any] = {}


def _pdf2txt() -> Any:
    """tools/pdf2txt.py of the tree under test, imported by path (the tools are scripts, not a package)."""
    import importlib.util
    import os

    from vf import REPO

    if "pdf2txt" not in _TOOLS:
        spec = importlib.util.spec_from_file_location("vf_c11_tool_pdf2txt", os.path.join(REPO, "tools", "pdf2txt.py"))
        mod = importlib.util.module_from_spec(spec)    # type: ignore[arg-type]
        spec.loader.exec_module(mod)                    # type: ignore[union-attr]
        _TOOLS["pdf2txt"] = mod
    return _TOOLS["pdf2txt"]


def la_args(la: Optional[Dict[str, Any]]) -> List[str]:
    """The command-line spelling of an LAParams dict."""
    if la is None:
        return ["-n"]
    a: List[str] = []
    for k, o in (("line_overlap", "--line-overlap"), ("char_margin", "--char-margin"), ("line_margin", "--line-margin"),
                 ("word_margin", "--word-margin")):
        if k in la:
            a.append("%s=%r" % (o, la[k]))
    if "boxes_flow" in la:
        a.append("--boxes-flow=%s" % ("disabled" if la["boxes_flow"] is None else repr(la["boxes_flow"])))
    if la.get("detect_vertical"):
        a.append("--detect-vertical")
    if la.get("all_texts"):
        a.append("--all-texts")
    return a


def run_pdf2txt(pdf: bytes, output_type: str, codec: str, la: Optional[Dict[str, Any]], sel: Dict[str, Any], strip: bool) -> Tuple[bytes, List[Any]]:
    """tools/pdf2txt.py in.pdf -o out.bin -t TYPE -c CODEC ... (main(args) in this process; stdout is left alone: the tool
    looks at sys.stdout.encoding) -> (bytes of the output file, LTPages the converter serialised)."""
    import os
    import tempfile

    _install_recorder()
    tool = _pdf2txt()
    with tempfile.TemporaryDirectory(prefix="vf-c11-") as d:
        inp = os.path.join(d, "in.pdf")
        outp = os.path.join(d, "out.bin")       # no suffix the tool would turn into an output type
        with open(inp, "wb") as f:
            f.write(pdf)
        args = [inp, "-o", outp, "-t", output_type, "-c", codec] + la_args(la)
        if strip:
            args.append("-S")
        if "maxpages" in sel:
            args += ["-m", str(sel["maxpages"])]
        if "page_numbers" in sel:
            args += ["--page-numbers"] + [str(i + 1) for i in sel["page_numbers"]]
        del _SEEN[:]
        rc = tool.main(args)
        if rc != 0:
            raise RuntimeError("pdf2txt.main returned %r" % (rc,))
        with open(outp, "rb") as f:
            return f.read(), list(_SEEN)


def loose_sig(pages: List[Any], text_only: bool) -> List[Any]:
    """Order- and index-insensitive content of the trees (ties in the analysis permute boxes and reshape groups)."""
    from pdfminer.layout import LTAnno, LTChar, LTContainer, LTCurve, LTFigure, LTImage, LTText

    out = []
    for p in pages:
        items: List[Tuple[str, str, str]] = []
        st: List[Any] = list(p)
        while st:
            it = st.pop()
            if text_only and isinstance(it, (LTCurve, LTImage)):
                continue
            if isinstance(it, LTFigure) and INLINE_NAME.match(it.name or ""):
                nm = "<inline>"      # older trees name an inline image after id() of a transient object: differs between runs
            else:
                nm = getattr(it, "name", "") if isinstance(it, LTFigure) else ""
            txt = it.get_text() if isinstance(it, LTText) else ""
            fn = it.fontname if isinstance(it, LTChar) and isinstance(it.fontname, str) else ""
            items.append((type(it).__name__, "" if isinstance(it, LTAnno) else bbox_str(it.bbox), "%s|%s|%s" % (nm, fn, txt)))
            if isinstance(it, LTContainer):
                st.extend(it)
        out.append((p.pageid, bbox_str(p.bbox), sorted(items)))
    return out


def strict_sig(pages: List[Any], text_only: bool) -> List[Any]:
    from pdfminer.layout import LTChar, LTContainer, LTCurve, LTFigure, LTImage, LTText, LTTextBox

    def sig(it: Any) -> Any:
        kids = [sig(c) for c in it if not (text_only and isinstance(c, (LTCurve, LTImage)))] if isinstance(it, LTContainer) else []
        nm = ""
        if isinstance(it, LTFigure):
            nm = "<inline>" if INLINE_NAME.match(it.name or "") else it.name
        elif isinstance(it, LTChar):
            nm = it.fontname if isinstance(it.fontname, str) else ""
        return (type(it).__name__, bbox_str(it.bbox) if hasattr(it, "bbox") else "", it.get_text() if isinstance(it, LTText) else "",
                it.index if isinstance(it, LTTextBox) else -2, nm, kids)

    return [sig(p) for p in pages]


# --------------------------------------------------------------------------
# oracles
# --------------------------------------------------------------------------
def tree_text(pages: List[Any]) -> str:
    """In-order text of the hierarchy: leaves' text, LF after each text box, FF after each page."""
    from pdfminer.layout import LTContainer, LTText, LTTextBox

    out: List[str] = []

    def walk(item: Any) -> None:
        if isinstance(item, LTContainer):
            for ch in item:
                walk(ch)
            if isinstance(item, LTTextBox):
                out.append("\n")
        elif isinstance(item, LTText):
            out.append(item.get_text())

    for p in pages:
        walk(p)
        out.append("\f")
    return "".join(out)


def f3(x: Any) -> str:
    return "%.3f" % x


def bbox_str(b: Any) -> str:
    return ",".join(f3(v) for v in b)


class Exp:
    """Expected element: tag, attributes (None = any value of that shape), character data, children."""
    __slots__ = ("tag", "attrs", "text", "children", "item")

    def __init__(self, tag: str, attrs: Dict[str, Any], text: Optional[str], children: List["Exp"], item: Any = None) -> None:
        self.tag = tag
        self.attrs = attrs
        self.text = text
        self.children = children
        self.item = item


INLINE_NAME = re.compile(r"^[0-9]{9,}$")


def expected_tree(pages: List[Any], strip: bool, mark: bool, stats: Dict[str, int]) -> Exp:
    """The element tree the property prescribes for these LTPage trees."""
    from pdfminer.layout import (LTAnno, LTChar, LTCurve, LTFigure, LTImage, LTLine, LTPage, LTRect, LTTextBox, LTTextBoxVertical,
                                 LTTextGroup, LTTextLine)

    def name(s: Any) -> str:
        s = s if isinstance(s, str) else ""
        if strip:
            s = drop_illegal(s)
        elif mark:
            s = mark_illegal(s)
        return norm_attr(s)

    def chardata(s: str) -> str:
        if strip:
            s = drop_illegal(s)
        elif mark:
            s = mark_illegal(s)
        return norm_chardata(s)

    def group(g: Any) -> Exp:
        stats["layout_elements"] = stats.get("layout_elements", 0) + 1
        if isinstance(g, LTTextBox):
            return Exp("textbox", {"id": "%d" % g.index, "bbox": bbox_str(g.bbox)}, None, [], g)
        if isinstance(g, LTTextGroup):
            return Exp("textgroup", {"bbox": bbox_str(g.bbox)}, None, [group(c) for c in g], g)
        raise AssertionError("unexpected group member %r" % (g,))

    def conv(item: Any, in_inline: bool = False) -> Exp:
        if isinstance(item, LTPage):
            kids = [conv(c) for c in item]
            if item.groups is not None:
                # an analysed page has a <layout>, also when the analysis found no text box (groups == [])
                if not item.groups:
                    stats["empty_layout_pages"] = stats.get("empty_layout_pages", 0) + 1
                kids.append(Exp("layout", {}, None, [group(g) for g in item.groups]))
            return Exp("page", {"id": "%s" % item.pageid, "bbox": bbox_str(item.bbox), "rotate": "%d" % item.rotate}, None, kids, item)
        if isinstance(item, LTLine):
            return Exp("line", {"linewidth": ("lw", item.linewidth), "bbox": bbox_str(item.bbox)}, None, [], item)
        if isinstance(item, LTRect):
            return Exp("rect", {"linewidth": ("lw", item.linewidth), "bbox": bbox_str(item.bbox)}, None, [], item)
        if isinstance(item, LTCurve):
            pts = ",".join("%s,%s" % (f3(x), f3(y)) for x, y in item.pts)
            return Exp("curve", {"linewidth": ("lw", item.linewidth), "bbox": bbox_str(item.bbox), "pts": pts}, None, [], item)
        if isinstance(item, LTFigure):
            kids = [conv(c) for c in item]
            nm: Any = name(item.name)
            if kids and any(k.tag == "figure" for k in kids):
                stats["nested_figures"] = stats.get("nested_figures", 0) + 1
            return Exp("figure", {"name": nm, "bbox": bbox_str(item.bbox)}, None, kids, item)
        if isinstance(item, LTTextLine):
            return Exp("textline", {"bbox": bbox_str(item.bbox)}, None, [conv(c) for c in item], item)
        if isinstance(item, LTTextBox):
            a = {"id": "%d" % item.index, "bbox": bbox_str(item.bbox)}
            if isinstance(item, LTTextBoxVertical):
                a["wmode"] = "vertical"
                stats["vertical_boxes"] = stats.get("vertical_boxes", 0) + 1
            return Exp("textbox", a, None, [conv(c) for c in item], item)
        if isinstance(item, LTChar):
            return Exp("text", {"font": name(item.fontname), "bbox": bbox_str(item.bbox), "colourspace": "%s" % item.ncs.name,
                                "ncolour": "%s" % (item.graphicstate.ncolor,), "size": f3(item.size)}, chardata(item.get_text()), [], item)
        if isinstance(item, LTAnno):
            return Exp("text", {}, chardata(item.get_text()), [], item)
        if isinstance(item, LTImage):
            return Exp("image", {"width": "%d" % item.width, "height": "%d" % item.height}, None, [], item)
        raise AssertionError("unexpected layout item %r" % (item,))

    return Exp("pages", {}, None, [conv(p) for p in pages])


def compare_trees(exp: Exp, got: Node, stats: Dict[str, int], tags: set) -> Optional[Tuple[str, str]]:
    """Lock-step walk; -> None or (key suffix, detail) for the first difference."""
    stack: List[Tuple[Exp, Node, str]] = [(exp, got, "/pages")]
    while stack:
        e, g, path = stack.pop()
        stats["xml_elements_compared"] = stats.get("xml_elements_compared", 0) + 1
        tags.add(e.tag)
        if e.tag != g.tag:
            return ("tag:%s" % e.tag, "%s: expected <%s>, found <%s>" % (path, e.tag, g.tag))
        if set(e.attrs) != set(g.attrs):
            return ("%s.attrs" % e.tag, "%s: expected attributes %s, found %s" % (path, sorted(e.attrs), sorted(g.attrs)))
        for k, v in e.attrs.items():
            stats["xml_attrs_compared"] = stats.get("xml_attrs_compared", 0) + 1
            gv = g.attrs[k]
            if isinstance(v, tuple) and v[0] == "lw":
                # the converter prints an integer: exact for integral widths; for fractional ones the integer part
                # (rounding mode not prescribed: floor or nearest accepted) or the exact value
                lw = v[1]
                if float(lw) == int(lw):
                    ok = gv in ("%d" % lw, repr(float(lw)), f3(lw))
                else:
                    stats["fractional_linewidths"] = stats.get("fractional_linewidths", 0) + 1
                    ok = gv in ("%d" % int(lw), "%d" % round(lw), repr(float(lw)), f3(lw))
            else:
                ok = gv == v
            if not ok:
                return ("%s.%s" % (e.tag, k), "%s: attribute %s=%s, expected %s" % (path, k, short(repr(gv), 300), short(repr(v), 300)))
        if e.text is None:
            if g.text.strip(" \t\r\n") != "":
                return ("%s.stray_chardata" % e.tag, "%s: unexpected character data %s" % (path, short(repr(g.text), 200)))
        else:
            stats["xml_chardata_compared"] = stats.get("xml_chardata_compared", 0) + 1
            if g.text != e.text:
                return ("%s.chardata" % e.tag, "%s: character data %s, expected %s" % (path, short(repr(g.text), 300), short(repr(e.text), 300)))
        if len(e.children) != len(g.children):
            et = [c.tag for c in e.children]
            gt = [c.tag for c in g.children]
            i = 0
            while i < min(len(et), len(gt)) and et[i] == gt[i]:
                i += 1
            return ("%s.children" % e.tag, "%s: %d children expected, %d found; first difference at #%d: expected %s found %s"
                    % (path, len(et), len(gt), i, et[i:i + 3], gt[i:i + 3]))
        for i in range(len(e.children) - 1, -1, -1):
            stack.append((e.children[i], g.children[i], "%s/%s[%d]" % (path, e.children[i].tag, i)))
    return None


HEADER = re.compile(r'\A<\?xml version="1\.0"(?: encoding="([^"]*)")? ?\?>\n')


def classify_text_diff(exp: str, got: str) -> Tuple[str, str]:
    i = 0
    n = min(len(exp), len(got))
    while i < n and exp[i] == got[i]:
        i += 1
    ec = exp[i:i + 1]
    gc = got[i:i + 1]
    if ec == "\n" or gc == "\n":
        kind = "box_newline"
    elif ec == "\f" or gc == "\f":
        kind = "page_formfeed"
    elif not ec or not gc:
        kind = "length"
    else:
        kind = "chars"
    return kind, "first difference at %d: expected %s, got %s (lengths %d / %d)" % (
        i, short(repr(exp[max(0, i - 10):i + 20]), 200), short(repr(got[max(0, i - 10):i + 20]), 200), len(exp), len(got))


def classify_binary(kind: str, codec: str, raw: bytes, text: str) -> Tuple[str, str]:
    """decoded(raw) != text: name the mechanism."""
    err = ""
    try:
        dec: Optional[str] = raw.decode(codec)
    except UnicodeError as e:
        dec = None
        err = str(e)
    if codecs.lookup(codec).name != "utf-8":
        try:
            if raw.decode("utf-8") == text:
                return "%s_binary_codec_ignored" % kind, "codec=%s: the bytes are the UTF-8 encoding of the text" % codec
        except UnicodeError:
            pass
    if dec is None:
        return "%s_binary_undecodable" % kind, "codec=%s: %s; bytes start %r" % (codec, err, raw[:80])
    if dec.replace("\ufeff", "") == text.replace("\ufeff", ""):
        return "binary_bom_per_write", "codec=%s: decoded output differs from the text output only by %d extra U+FEFF (a byte order mark per write)" % (
            codec, dec.count("\ufeff") - text.count("\ufeff"))
    k, d = classify_text_diff(text, dec)
    return "%s_binary_mismatch:%s" % (kind, k), "codec=%s: %s" % (codec, d)


def classify_binary_xml(codec: str, raw: bytes, dec: Optional[str], sxml: str) -> Tuple[str, str]:
    """The binary XML output does not decode, or does not start with an XML declaration."""
    if dec is not None and HEADER.match(dec.replace("\ufeff", "")) is not None:
        return "binary_bom_per_write", "codec=%s: U+FEFF before the XML declaration: output starts %r" % (codec, raw[:40])
    if codecs.lookup(codec).name != "utf-8":
        try:
            u = raw.decode("utf-8")
            if HEADER.match(u) and HEADER.sub("", u) == HEADER.sub("", sxml):
                return "xml_binary_codec_ignored", "codec=%s: the bytes are the UTF-8 encoding of the document" % codec
        except UnicodeError:
            pass
    if dec is None:
        return "xml_binary_undecodable", "codec=%s: bytes start %r" % (codec, raw[:80])
    return "xml_header", "codec=%s: binary output starts %r" % (codec, dec[:60])


def choose_codecs(rng: Any, text: str, k: int) -> List[str]:
    """k codecs able to encode the text; an escape-sequence codec is always among them when one is able and the
    text is not pure ASCII (so that shift states actually change between the pieces the converter writes)."""
    able = able_codecs(text)
    chosen = rng.sample(able, min(k, len(able)))
    esc = [c for c in ESCAPE_CODECS if c in able]
    if esc and not text.isascii() and not any(c in ESCAPE_CODECS for c in chosen):
        chosen[-1] = rng.choice(esc)
    return chosen


NARROW_CODECS = ["ascii", "latin-1", "cp1252", "cp437", "koi8-r", "shift_jis", "gbk", "euc_kr", "iso2022_jp", "hz", "big5"]


def narrow_codec(rng: Any, text: str) -> Tuple[str, bool]:
    """A codec to pass along with a TEXT sink -> (codec, lossy); lossy = it cannot encode some character of the text
    (preferred when there is one), so that any use of the codec on the way to a str sink changes the output."""
    lossy = []
    for c in NARROW_CODECS:
        try:
            text.encode(c)
        except UnicodeError:
            lossy.append(c)
    if lossy:
        return rng.choice(lossy), True
    return rng.choice(NARROW_CODECS), False


def able_codecs(text: str) -> List[str]:
    out = list(CODECS_ALWAYS)
    for c in CODECS_IF_ABLE:
        try:
            if text.encode(c).decode(c) == text:
                out.append(c)
        except UnicodeError:
            pass
    return out


def tree_facts(pages: List[Any]) -> Dict[str, Any]:
    """What the selected pages contain (for family tagging, non-triviality and coverage)."""
    from pdfminer.layout import LTChar, LTContainer, LTFigure

    f = {"glyphs": 0, "text": [], "fontnames": set(), "fignames": set(), "figures": 0}
    st: List[Any] = list(pages)
    while st:
        it = st.pop()
        if isinstance(it, LTChar):
            f["glyphs"] += 1
            f["text"].append(it.get_text())
            f["fontnames"].add(it.fontname if isinstance(it.fontname, str) else "")
        elif isinstance(it, LTContainer):
            if isinstance(it, LTFigure):
                f["figures"] += 1
                f["fignames"].add(it.name)
            st.extend(it)
    f["text"] = "".join(f["text"])
    return f


XMLSPECIAL = set("<>&\"'")


def locate(src: str, byte_index: int) -> Tuple[str, str]:
    """Context of an expat error (expat counts bytes of the UTF-8 form) -> (element name, context)."""
    raw = src.encode("utf-8", "surrogatepass")
    start = raw.rfind(b"\n<", 0, byte_index + 1) + 1
    ctx = raw[max(0, byte_index - 80):byte_index + 40].decode("utf-8", "replace")
    m = re.match(rb"</?([a-z?]+)", raw[start:start + 20]) if start >= 0 else None
    return (m.group(1).decode() if m else "other"), ctx


def check_case(case: Dict[str, Any], rec: Any = None, only: Optional[str] = None) -> List[Tuple[str, str]]:
    """Run every configuration of one generated case; -> [(key, detail)]."""
    pdf = case["pdf"]
    rng = case["rng"]
    sel = case["sel"]
    la_main = case["laparams"]
    fails: List[Tuple[str, str]] = []
    stats: Dict[str, int] = {}
    tags: set = set()

    def count(name: str, n: int = 1) -> None:
        if rec is not None:
            rec.count(name, n)

    def call(label: str, fn: Any, *a: Any, **k: Any) -> Any:
        try:
            return fn(*a, **k)
        except Exception as e:  # noqa: BLE001
            fails.append(("exception:%s:%s" % (_where(e), label.split("/")[0]), "%s: %s: %s" % (label, type(e).__name__, short(str(e), 300))))
            return None

    trees: Dict[str, Any] = {}

    def tree(la: Optional[Dict[str, Any]]) -> Any:
        k = repr(la)
        if k not in trees:
            trees[k] = call("reference/" + ("none" if la is None else "given"), ref_pages, pdf, la, sel)
        return trees[k]

    sigs: Dict[Tuple[str, bool], Any] = {}

    def plumbing(label: str, la: Optional[Dict[str, Any]], pages: List[Any], text_only: bool) -> bool:
        """The tree the converter serialised is the tree extract_pages gives for the same bytes and options."""
        t = tree(la)
        if t is None:
            return False
        k = (repr(la), text_only)
        if k not in sigs:
            sigs[k] = (loose_sig(t, text_only), strict_sig(t, text_only))
        count("reference_trees_compared")
        if strict_sig(pages, text_only) == sigs[k][1]:
            count("reference_trees_identical")
            return True
        if loose_sig(pages, text_only) == sigs[k][0]:
            count("reference_trees_tie_reordered")
            return True
        a, b = loose_sig(pages, text_only), sigs[k][0]
        if [x[:2] for x in a] != [x[:2] for x in b]:
            what, d = "pages", "pages %r, extract_pages gives %r" % ([x[:2] for x in a], [x[:2] for x in b])
        else:
            what = "items"
            d = ""
            for pa, pb in zip(a, b):
                if pa != pb:
                    only_a = [x for x in pa[2] if x not in pb[2]][:3]
                    only_b = [x for x in pb[2] if x not in pa[2]][:3]
                    d = "page %s: only in the converter's tree %s; only in extract_pages' tree %s" % (pa[0], short(repr(only_a), 400), short(repr(only_b), 400))
                    break
        fails.append(("options_plumbing:%s:%s" % (label.split("/")[0], what), "%s: the serialised tree is not the tree of extract_pages with the same options: %s" % (label, d)))
        return False

    t_main = tree(la_main)
    if t_main is None:
        return fails
    facts = tree_facts(t_main)
    names = facts["fontnames"] | facts["fignames"]
    illegal_text = has_illegal(facts["text"])
    illegal_names = any(has_illegal(n) for n in names)
    nontrivial = facts["glyphs"] >= 1 and (
        facts["figures"] > 0 or any(not (c.isalnum() and c.isascii()) and c != " " for c in facts["text"])
        or any(not n.replace("-", "").replace("+", "").isalnum() for n in names))
    if rec is not None:
        rec.count("docs")
        rec.count("glyphs", facts["glyphs"])
        if XMLSPECIAL & set(facts["text"]):
            rec.count("docs_xmlspecial_text")
        if any(XMLSPECIAL & set(n) for n in facts["fontnames"]):
            rec.count("docs_xmlspecial_fontname")
        if any(XMLSPECIAL & set(n) for n in facts["fignames"]):
            rec.count("docs_xmlspecial_figname")
        if any(ord(c) > 0xFFFF for c in facts["text"] + "".join(names)):
            rec.count("docs_nonbmp")
        if illegal_text:
            rec.count("docs_ctrl_text")
        if illegal_names:
            rec.count("docs_ctrl_name")
        if any(c in "\ufffe\uffff" for c in facts["text"]):
            rec.count("docs_nonchar_text")
        if any(c in "\t\r\n" for n in names for c in n):
            rec.count("docs_ws_name")
        if any(c in "\r" for c in facts["text"]):
            rec.count("docs_cr_text")
        if any(len(n) >= 1500 for n in names):
            rec.count("docs_long_name")
        if "(cid:" in facts["text"]:
            rec.count("docs_undefined_glyph")
        if case["feat"].get("images"):
            rec.count("docs_images")
        if case["feat"].get("inline_image"):
            rec.count("docs_inline_images")
        if case["feat"].get("max_depth", 0) >= 2:
            rec.count("docs_nested_figures")
        if sel:
            rec.count("docs_page_selection")
        rec.see("profiles", case["feat"]["profile"])

    def evaluation(cfg: str) -> None:
        if rec is not None:
            rec.case(chash(pdf, cfg), nontrivial)

    def eval_text(label: str, got: Any, pages: List[Any], sink_codec: Optional[str] = None) -> bool:
        exp = tree_text(pages)
        if not isinstance(got, str):
            fails.append(("text_sink_not_str", "%s: %r" % (label, type(got))))
            return False
        if got != exp and sink_codec is not None:
            try:
                through = exp.encode(sink_codec, "ignore").decode(sink_codec, "ignore")
            except (UnicodeError, LookupError):
                through = None
            k, d = classify_text_diff(exp, got)
            if got == through:
                fails.append(("text_sink_codec_applied", "%s: the text sink received the text as it survives codec=%s (characters the codec cannot "
                              "represent are lost); %s" % (label, sink_codec, d)))
                return False
        if got != exp:
            k, d = classify_text_diff(exp, got)
            fails.append(("%s_mismatch:%s" % (label.split("/")[0], k), "%s: %s" % (label, d)))
            return False
        count("text_chars_compared", len(exp))
        count("text_box_newlines", exp.count("\n"))
        count("text_formfeeds", exp.count("\f"))
        return True

    def eval_xml(label: str, got: str, pages: List[Any], strip: bool, codec: Optional[str]) -> bool:
        m = HEADER.match(got)
        if m is None:
            fails.append(("xml_header", "%s: output starts %r" % (label, got[:60])))
            return False
        declared = m.group(1)
        if codec is None:
            okdecl = declared is None
        else:
            try:
                okdecl = declared is not None and codecs.lookup(declared).name == codecs.lookup(codec).name
            except LookupError:
                okdecl = False
        if not okdecl:
            fails.append(("xml_encoding_declaration", "%s: declaration says %r" % (label, declared)))
            return False
        demanded = strip or not (illegal_text or illegal_names)
        src = got
        mark = False
        if demanded:
            count("xml_wellformed_demanded")
        else:
            count("xml_marked_runs")
            if PLACEHOLDER in got:
                return True            # cannot happen with the generator's pools
            src = mark_illegal(got)
            mark = True
        root, err = parse_xml(src)
        if err is not None:
            el, ctx = locate(src, err[3])
            why = "illegal_char" if has_illegal(ctx) else "markup"
            fails.append(("xml_not_wellformed:%s:%s" % (el, why), "%s: %s at line %d column %d: %s" % (label, err[0], err[1], err[2], short(repr(ctx), 300))))
            return False
        diff = compare_trees(expected_tree(pages, strip, mark, stats), root, stats, tags)
        if diff is not None:
            fails.append(("xml_tree:" + diff[0], "%s: %s" % (label, diff[1])))
            return False
        return True

    def sink_codec_for(text: str) -> str:
        c, lossy = narrow_codec(rng, text)
        count("text_sink_codec_runs")
        if lossy:
            count("text_sink_lossy_codec_runs")
        if rec is not None:
            rec.see("text_sink_codecs", c)
        return c

    def decode_text(label: str, codec: str, raw: Any, pages: List[Any]) -> bool:
        if not isinstance(raw, bytes):
            fails.append(("text_binary_not_bytes", "%s: %r" % (label, type(raw))))
            return False
        exp = tree_text(pages)
        try:
            dec: Optional[str] = raw.decode(codec)
        except UnicodeError:
            dec = None
        if dec != exp:
            fails.append(classify_binary("text", codec, raw, exp))
            return False
        return True

    # ------------------------------------------------------------------ text
    la_list: List[Optional[Dict[str, Any]]] = [la_main]
    if rng.random() < 0.5:
        la_list.append(None)
    text_out_main: List[str] = []
    if only in (None, "text"):
        text_main: Optional[str] = None
        for la in la_list:
            lk = "none" if la is None else "main"
            fs = rng.random() < 0.15
            sc: Optional[str] = None
            if la is None and text_main is not None:      # second text-sink run: a codec is passed along with the str sink
                sc = sink_codec_for(text_main)
            label = "text/%s/%s%s" % ("textfile" if fs else "StringIO", lk, "/codec=%s" % sc if sc else "")
            count("file_sink_runs", int(fs))
            r = call(label, run_converter, pdf, "text", la, sel, None, False, fs, sc)
            evaluation("text/str/%s/%s" % (lk, sc))
            count("text_runs")
            if la is None:
                count("laparams_none_runs")
            if r is None:
                continue
            ok = eval_text(label, r[0], r[1], sc) and plumbing(label, la, r[1], True)
            if ok and la is la_main:
                text_main = r[0]
                text_out_main.append(r[0])
        if text_main is not None:
            # a codec given together with a text sink: the sink receives the tree's text unchanged, whatever the codec can hold
            fs = rng.random() < 0.15
            sc = sink_codec_for(text_main)
            label = "text/%s/main/codec=%s" % ("textfile" if fs else "StringIO", sc)
            count("file_sink_runs", int(fs))
            r = call(label, run_converter, pdf, "text", la_main, sel, None, False, fs, sc)
            evaluation("text/str/main/%s" % sc)
            count("text_runs")
            if r is not None:
                _ = eval_text(label, r[0], r[1], sc) and plumbing(label, la_main, r[1], True)
        # the convenience function (returns str; its codec argument must not change the characters either)
        sc = sink_codec_for(text_main) if text_main is not None and rng.random() < 0.7 else None
        label = "extract_text" + ("/codec=%s" % sc if sc else "")
        r = call(label, run_extract_text, pdf, la_main, sel, sc)
        evaluation("extract_text/%s" % sc)
        count("text_runs")
        if r is not None:
            _ = eval_text(label, r[0], r[1], sc) and plumbing(label, la_main, r[1], True)
        if rng.random() < 0.3:      # laparams=None means "defaults" for extract_text (unlike extract_text_to_fp)
            r = call("extract_text/default", run_extract_text, pdf, None, sel)
            evaluation("extract_text/default")
            count("text_runs")
            count("extract_text_default_runs")
            if r is not None:
                _ = eval_text("extract_text/default", r[0], r[1]) and plumbing("extract_text/default", {}, r[1], True)
        # binary sinks
        if text_main is not None:
            for codec in choose_codecs(rng, text_main, 3):
                fs = rng.random() < 0.15
                label = "text/%s/%s" % ("binaryfile" if fs else "BytesIO", codec)
                count("file_sink_runs", int(fs))
                r = call(label, run_converter, pdf, "text", la_main, sel, codec, False, fs)
                evaluation("text/bytes/" + codec)
                count("text_runs")
                count("binary_text_runs")
                if codec in ESCAPE_CODECS and not text_main.isascii():
                    count("escape_codec_text_runs")
                if rec is not None:
                    rec.see("codecs", "text:" + codec)
                if r is None:
                    continue
                if decode_text(label, codec, r[0], r[1]):
                    count("text_chars_compared", len(text_main))
                    plumbing(label, la_main, r[1], True)

    # ------------------------------------------------------------------ xml
    if only in (None, "xml"):
        strip1 = rng.random() < 0.5
        la_x = None if rng.random() < 0.5 else la_main
        combos = [(la_main, strip1), (la_x, not strip1)]
        xml_ok: List[Tuple[Optional[Dict[str, Any]], bool, str]] = []
        for la, strip in combos:
            lk = "none" if la is None else "main"
            fs = rng.random() < 0.15
            label = "xml/%s/%s/strip=%d" % ("textfile" if fs else "StringIO", lk, strip)
            count("file_sink_runs", int(fs))
            r = call(label, run_converter, pdf, "xml", la, sel, None, strip, fs)
            evaluation("xml/str/%s/%d" % (lk, strip))
            count("xml_runs")
            if la is None:
                count("laparams_none_runs")
            if r is None:
                continue
            if not isinstance(r[0], str):
                fails.append(("xml_text_sink_not_str", "%s: %r" % (label, type(r[0]))))
                continue
            if not (eval_xml(label, r[0], r[1], strip, None) and plumbing(label, la, r[1], False)):
                continue
            xml_ok.append((la, strip, r[0]))
            # binary sinks with codecs able to encode this very document
            for codec in choose_codecs(rng, HEADER.sub("", r[0]), 2):
                fs = rng.random() < 0.15
                label = "xml/%s/%s/%s/strip=%d" % ("binaryfile" if fs else "BytesIO", codec, lk, strip)
                count("file_sink_runs", int(fs))
                rb = call(label, run_converter, pdf, "xml", la, sel, codec, strip, fs)
                evaluation("xml/bytes/%s/%s/%d" % (codec, lk, strip))
                count("xml_runs")
                count("binary_xml_runs")
                if codec in ESCAPE_CODECS and not r[0].isascii():
                    count("escape_codec_xml_runs")
                if rec is not None:
                    rec.see("codecs", "xml:" + codec)
                if rb is None:
                    continue
                raw, pages = rb
                if not isinstance(raw, bytes):
                    fails.append(("xml_binary_not_bytes", "%s: %r" % (label, type(raw))))
                    continue
                try:
                    dec: Optional[str] = raw.decode(codec)
                except UnicodeError:
                    dec = None
                if dec is None or HEADER.match(dec) is None:
                    fails.append(classify_binary_xml(codec, raw, dec, r[0]))
                    continue
                if not eval_xml(label, dec, pages, strip, codec):
                    # a byte order mark per write shows up as stray U+FEFF character data: name that mechanism
                    if dec.count("\ufeff") > r[0].count("\ufeff") and dec.replace("\ufeff", "")[len(HEADER.match(dec).group(0)):] == \
                            r[0].replace("\ufeff", "")[len(HEADER.match(r[0]).group(0)):]:
                        fails[-1] = ("binary_bom_per_write", "%s: the decoded document differs from the text-sink document only by %d extra U+FEFF" % (
                            label, dec.count("\ufeff") - r[0].count("\ufeff")))
                    continue
                plumbing(label, la, pages, False)
                # expat on the bytes themselves, where expat can honour the declaration
                if codec in EXPAT_BYTES and (strip or not (illegal_text or illegal_names)):
                    count("xml_bytes_parsed")
                    root, err = parse_xml(raw)
                    if err is not None:
                        fails.append(("xml_bytes_not_wellformed", "%s: %s at line %d column %d" % (label, err[0], err[1], err[2])))
                        continue
                    diff = compare_trees(expected_tree(pages, strip, False, {}), root, {}, set())
                    if diff is not None:
                        fails.append(("xml_bytes_tree:" + diff[0], "%s: %s" % (label, diff[1])))
    # ------------------------------------------------------------------ the command-line tool
    # tools/pdf2txt.py -o FILE -c CODEC -t text|xml|html: the file holds what the library writes to a binary sink with that codec
    if only is None and rng.random() < 0.3:
        kind = rng.choice(["text", "text", "xml", "xml", "html"])
        n0 = len(fails)
        if kind == "text" and text_out_main:
            codec = rng.choice([c for c in choose_codecs(rng, text_out_main[0], 3) if c != "utf-8"])
            label = "pdf2txt/text/%s" % codec
            r = call(label, run_pdf2txt, pdf, "text", codec, la_main, sel, False)
            evaluation(label)
            count("pdf2txt_runs")
            count("pdf2txt_text_runs")
            if r is not None and decode_text(label, codec, r[0], r[1]):
                plumbing(label, la_main, r[1], True)
        elif kind == "xml" and xml_ok:
            la, strip, sxml = rng.choice(xml_ok)
            codec = rng.choice([c for c in choose_codecs(rng, HEADER.sub("", sxml), 3) if c != "utf-8"])
            label = "pdf2txt/xml/%s/strip=%d" % (codec, strip)
            r = call(label, run_pdf2txt, pdf, "xml", codec, la, sel, strip)
            evaluation(label)
            count("pdf2txt_runs")
            count("pdf2txt_xml_runs")
            if r is not None:
                try:
                    dec = r[0].decode(codec)
                except UnicodeError:
                    dec = None
                if dec is None or HEADER.match(dec) is None:
                    fails.append(classify_binary_xml(codec, r[0], dec, sxml))
                elif eval_xml(label, dec, r[1], strip, codec):
                    plumbing(label, la, r[1], False)
        elif kind == "html":
            # no tree oracle for HTML (not part of the property): the tool's file equals the library's binary output with the codec
            u = call("html/BytesIO/utf-8", run_converter, pdf, "html", la_main, sel, "utf-8")
            if u is not None and isinstance(u[0], bytes):
                body = u[0].decode("utf-8")
                codec = rng.choice([c for c in choose_codecs(rng, body, 3) if c != "utf-8"])
                label = "pdf2txt/html/%s" % codec
                lib = call("html/BytesIO/" + codec, run_converter, pdf, "html", la_main, sel, codec)
                r = call(label, run_pdf2txt, pdf, "html", codec, la_main, sel, False)
                evaluation(label)
                count("pdf2txt_runs")
                count("pdf2txt_html_runs")
                if lib is not None and r is not None:
                    try:
                        same = r[0].decode(codec) == lib[0].decode(codec)
                    except UnicodeError:
                        same = False
                    if not same:
                        how = "codec_ignored" if r[0] == u[0] else "mismatch"
                        fails.append(("html_file_%s" % how, "%s: the file differs from extract_text_to_fp(output_type='html', codec=%r): starts %r / %r" % (
                            label, codec, r[0][:90], lib[0][:90])))
                    elif ("charset=%s" % codec) not in r[0].decode(codec)[:200]:
                        fails.append(("html_charset_declaration", "%s: %r" % (label, r[0][:120])))
        for i in range(n0, len(fails)):
            fails[i] = ("pdf2txt:" + fails[i][0], fails[i][1])
    if rec is not None:
        for k, v in stats.items():
            rec.count(k, v)
        for t in tags:
            rec.see("xml_tags", t)
    return fails


def family(case: Dict[str, Any]) -> str:
    f = case["feat"]
    parts = [k for k in ("nonchar", "ctrl_font", "ctrl_fig") if f.get(k)]
    return "+".join(parts) or "main"


def run_shard(spec: Dict[str, Any], rec) -> None:
    tier = spec["tier"]
    for i in range(spec["n"]):
        s = "C11/%d/%d/%d" % (spec["seed"], spec["sub"], i)
        case = c11gen.gen_case(s, tier)
        fails = check_case(case, rec)
        rec.count("family:" + family(case))
        for key, detail in fails:
            rec.fail(key, {"seed_str": s, "tier": tier}, detail + " | family=%s feat=%r" % (family(case), case["feat"]))
        if rec.want_sample() and len(case["content"]) < 700 and case["feat"]["special_names"]:
            rec.sample({"seed_str": s, "feat": case["feat"], "laparams": case["laparams"], "sel": case["sel"], "content": case["content"]})


def replay(case: Dict[str, Any]) -> List[Tuple[str, str]]:
    c = c11gen.gen_case(case["seed_str"], case.get("tier", "quick"), case.get("force"))
    return check_case(c, None)
