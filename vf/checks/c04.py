"""C04 — page tree: order, inheritance, rotation/box normalisation, page selection.

Workload: random rooted trees of /Pages and /Page nodes with the inheritable
attributes (Resources, MediaBox, CropBox, Rotate) placed at random nodes on each
root-to-page path, as direct or indirect values; every Resources dictionary
defines /F1 with a distinct BaseFont, so the font name of the glyphs a page shows
reveals which Resources dictionary the page actually used.  Every page shows one
glyph near each corner of its MediaBox at known user-space coordinates.
A second family puts cycles and repeated nodes into /Kids; a third enumerates
page_numbers x maxpages selections.

Oracle: a reference walk (DFS in Kids order, nearest-ancestor inheritance, visited
set) gives the page sequence and attributes; the expected device coordinates are
the clockwise rotation by Rotate that sends the MediaBox to a box with origin
(0,0).  Cyclic trees must finish within a step budget.
"""
from __future__ import annotations

import io
import os
import itertools
import random
from typing import Any, Dict, List, Optional, Set, Tuple

from vf.common import StepBudgetExceeded, chash, last_steps, run_with_budget
from vf.gen.pdfw import Doc, N, Name, Ref, Stream, font_widths

ID = "C04"
LEVEL = "exploration"
DESIGN_REF = "DESIGN.md#C04"
TECHNIQUE = "runtime monitoring: generated page trees; reference DFS/inheritance/rotation model compared with PDFPage attributes, LTPage.bbox and glyph origins; exhaustive page selection"
LEVEL_TEXT = (
    'Exploration: random page trees with inheritable attributes at random nodes are compared with a reference DFS/inheritance walk and an independently derived rotation transform (all coordinates integers, exact); page selection is enumerated exhaustively for up to 5 pages in the thorough tier; cyclic trees run under a line-count budget. Right level: tree shapes are unbounded, but the oracle is a few lines of specification and every attribute/rotation/selection combination is counted in the evidence.'
)
RULE = (
    "random page trees (depth<=6, fan-out<=5, <=40 pages quick / <=300 thorough; chains and wide flat trees) with "
    "Resources/MediaBox/CropBox/Rotate at random nodes (direct/indirect, boxes with indirect elements; half of the Resources dictionaries with a second category of their own; 6% of the absent keys written with the null object), Rotate in "
    "{0,90,180,270,-90,-270,360,450,810,-450}, MediaBox origins incl. negative; cyclic/repeated Kids family under a step "
    "budget; selection family: all non-empty page_numbers subsets x maxpages 0..n+1 for n<=5 (exhaustive), random beyond, "
    "through PDFPage.get_pages, extract_pages and extract_text, and a sample of them through tools/pdf2txt.py and tools/dumppdf.py (-p, --pagenos, --page-numbers, -m; one-based). distinct = distinct document bytes (+selection); "
    "non-trivial = tree depth>=2 or an inherited attribute or a rotation != 0 or a cycle or a proper selection. "
    "Not generated: empty page_numbers (ambiguous: falsy means 'all'), pages without any MediaBox on their path, Kids that "
    "are direct dictionaries; reversed-corner MediaBox only as tagged sub-family."
)
ASSUMPTIONS = [
    "the expected CTM is derived from ISO 32000-1 8.3.2.3 / Table 30 (Rotate clockwise, multiples of 90) and the statement's normalisation (MediaBox lands on a box with origin (0,0))",
    "glyph origin is observed as LTChar.matrix[4:6]; all coordinates are integers so the arithmetic is exact",
]
SHARD_TIMEOUT = {"quick": 600, "thorough": 5400}
ROTATES = [0, 90, 180, 270, -90, -270, 360, 450, 810, -450, -180, 720]


def minimums(tier: str) -> Dict[str, int]:
    if tier == "quick":
        return {"evaluations": 1500, "distinct": 700, "pages_checked": 6000, "glyphs_checked": 20000, "selections_checked": 600,
                "cyclic_docs": 60, "inherited_attr_pages": 2000, "seen:rotate_values": 10, "rotation_option_pages": 1500,
                "tool_selections:dumppdf": 250, "tool_selections:pdf2txt": 250,
                "page_objects_reread_after_enumeration": 4000, "pages_with_null_valued_inheritable_key": 500, "resource_category_sets_checked": 4000, "pages_without_content": 300}
    return {"evaluations": 30000, "distinct": 15000, "pages_checked": 150000, "glyphs_checked": 500000, "selections_checked": 12000,
            "cyclic_docs": 1500, "inherited_attr_pages": 40000, "seen:rotate_values": 12, "rotation_option_pages": 30000,
            "tool_selections:dumppdf": 2000, "tool_selections:pdf2txt": 2000,
            "page_objects_reread_after_enumeration": 100000, "pages_with_null_valued_inheritable_key": 10000, "resource_category_sets_checked": 100000, "pages_without_content": 8000}


def shards(tier: str, seed: int) -> List[Dict[str, Any]]:
    q = tier == "quick"
    out = [{"kind": "tree", "sub": i, "n": 22 if q else 180} for i in range(24 if q else 64)]
    out += [{"kind": "cyclic", "sub": i, "n": 6 if q else 60} for i in range(16 if q else 48)]
    out += [{"kind": "select", "sub": i, "n": 3 if q else 14} for i in range(8 if q else 24)]
    out += [{"kind": "revbox", "sub": 0, "n": 12 if q else 80}]
    return out


# --------------------------------------------------------------------------
# tree model
# --------------------------------------------------------------------------
class Node:
    def __init__(self, nid: int, is_page: bool) -> None:
        self.nid = nid
        self.is_page = is_page
        self.kids: List["Node"] = []
        self.attrs: Dict[str, Any] = {}   # own inheritable attributes (model values)
        self.ref: Optional[Ref] = None
        self.extra_kid_refs: List[Tuple[int, "Node"]] = []  # (position, target) extra Kids entries (cycles / repeats)


def gen_tree(rng: random.Random, max_pages: int, shape: str) -> Node:
    counter = itertools.count()
    root = Node(next(counter), False)
    npages = 0
    if shape == "chain":
        cur = root
        for _ in range(rng.randint(2, 6)):
            nxt = Node(next(counter), False)
            cur.kids.append(nxt)
            if rng.random() < 0.4 and npages < max_pages:
                cur.kids.insert(rng.randint(0, len(cur.kids)), Node(next(counter), True))
                npages += 1
            cur = nxt
        for _ in range(rng.randint(1, 3)):
            cur.kids.append(Node(next(counter), True))
        return root
    if shape == "flat":
        for _ in range(rng.randint(1, max_pages)):
            root.kids.append(Node(next(counter), True))
        return root

    def grow(node: Node, depth: int) -> None:
        nonlocal npages
        for _ in range(rng.randint(1 if depth == 0 else 0, 5)):
            if npages >= max_pages:
                break
            if depth < 5 and rng.random() < 0.35:
                k = Node(next(counter), False)
                node.kids.append(k)
                grow(k, depth + 1)
            else:
                node.kids.append(Node(next(counter), True))
                npages += 1

    grow(root, 0)
    if npages == 0:
        root.kids.append(Node(next(counter), True))
    return root


def all_nodes(root: Node) -> List[Node]:
    out, st = [], [root]
    while st:
        n = st.pop()
        out.append(n)
        st.extend(reversed(n.kids))
    return out


def place_attrs(rng: random.Random, root: Node, revbox: bool = False) -> None:
    """Put inheritable attributes at random nodes; make sure every page has a MediaBox and Resources on its path."""
    for n in all_nodes(root):
        if rng.random() < 0.35:
            x0, y0 = rng.choice([0, 0, 10, -20, 36, -100]), rng.choice([0, 0, 5, -30, 72])
            w, h = rng.choice([200, 300, 612, 100]), rng.choice([150, 400, 792, 260])
            n.attrs["MediaBox"] = [x0, y0, x0 + w, y0 + h]
        if rng.random() < 0.2:
            n.attrs["CropBox"] = [rng.randint(-5, 20), rng.randint(-5, 20), rng.randint(50, 150), rng.randint(50, 140)]
        if rng.random() < 0.3:
            n.attrs["Rotate"] = rng.choice(ROTATES)
        if rng.random() < 0.35:
            # half of the resource dictionaries carry a second category of their own ("x"): a page gets the WHOLE dictionary
            # of the nearest node that has one, never a mixture of several
            n.attrs["Resources"] = "font%d%s" % (n.nid, rng.choice(["", "x"]))
        # an inheritable key written with the null object is equivalent to omitting it (7.3.9): inheritance goes on
        n.null_keys = [a for a in ("MediaBox", "CropBox", "Rotate", "Resources") if a not in n.attrs and rng.random() < 0.06]
    # guarantee MediaBox / Resources for every page
    def fix(node: Node, have_mb: bool, have_res: bool) -> None:
        have_mb = have_mb or "MediaBox" in node.attrs
        have_res = have_res or "Resources" in node.attrs
        if node.is_page:
            if not have_mb:
                node.attrs["MediaBox"] = [0, 0, 300, 200]
            if not have_res:
                node.attrs["Resources"] = "font%d" % node.nid
        for k in node.kids:
            fix(k, have_mb, have_res)

    if "MediaBox" not in root.attrs and rng.random() < 0.5:
        root.attrs["MediaBox"] = [0, 0, 400, 500]
    fix(root, False, False)


def reference_walk(root: Node) -> List[Tuple[Node, Dict[str, Any]]]:
    """The specification: DFS in Kids order (extra Kids entries included), each node visited once,
    attributes from the page itself or else its nearest ancestor on the path of first visit."""
    out: List[Tuple[Node, Dict[str, Any]]] = []
    visited: Set[int] = set()

    def kids_in_order(n: Node) -> List[Node]:
        ks: List[Node] = list(n.kids)
        for pos, target in sorted(n.extra_kid_refs, key=lambda t: -t[0]):
            ks.insert(min(pos, len(ks)), target)
        return ks

    def walk(n: Node, inh: Dict[str, Any]) -> None:
        if n.nid in visited:
            return
        visited.add(n.nid)
        eff = dict(inh)
        eff.update(n.attrs)
        if n.is_page:
            out.append((n, eff))
        else:
            for k in kids_in_order(n):
                walk(k, eff)

    walk(root, {})
    return out


# --------------------------------------------------------------------------
# rendering
# --------------------------------------------------------------------------
def corner_points(mb: List[int]) -> List[Tuple[int, int]]:
    x0, y0, x1, y1 = mb
    return [(x0 + 10, y0 + 10), (x1 - 30, y0 + 12), (x0 + 14, y1 - 25), (x1 - 28, y1 - 22), ((x0 + x1) // 2, (y0 + y1) // 2)]


def build_doc(rng: random.Random, root: Node, order_for_content: List[Tuple[Node, Dict[str, Any]]], revbox_nid: Optional[int] = None) -> Tuple[bytes, Dict[int, int]]:
    """Render the tree; each page shows 5 glyphs (codes 'A'..'E') at the corner points of ITS effective MediaBox
    and the word 'pg<nid>'.  Returns (bytes, nid -> objid)."""
    doc = Doc()
    cat = doc.alloc()
    nodes = all_nodes(root)
    for n in nodes:
        n.ref = doc.alloc()
    eff_by_nid = {n.nid: eff for n, eff in order_for_content}

    def val(v: Any) -> Any:
        """direct or indirect representation"""
        if rng.random() < 0.4:
            return doc.add(v)
        return v

    def box(b: List[int]) -> Any:
        r = rng.random()
        if r < 0.25:
            return doc.add(list(b))
        if r < 0.45:
            return [doc.add(c) if rng.random() < 0.5 else c for c in b]
        if r < 0.6:
            return [float(c) for c in b]
        return list(b)

    parent_of: Dict[int, Node] = {}
    for n in nodes:
        for k in n.kids:
            parent_of[k.nid] = n
    for n in nodes:
        d: Dict[str, Any] = {}
        if "MediaBox" in n.attrs:
            mb = n.attrs["MediaBox"]
            if revbox_nid == n.nid:   # any two diagonally opposite corners (ISO 32000-1 7.9.5)
                how = rng.choice(["both", "x", "y"])
                mb = {"both": [mb[2], mb[3], mb[0], mb[1]], "x": [mb[2], mb[1], mb[0], mb[3]], "y": [mb[0], mb[3], mb[2], mb[1]]}[how]
            d["MediaBox"] = box(mb)
        if "CropBox" in n.attrs:
            d["CropBox"] = box(n.attrs["CropBox"])
        if "Rotate" in n.attrs:
            d["Rotate"] = val(n.attrs["Rotate"])
        if "Resources" in n.attrs:
            fname = n.attrs["Resources"]
            res = {"Font": {"F1": font_widths(name="Helvetica-" + fname, first=32, widths=[500] * 95, subtype="Type1",
                                              encoding=N("WinAnsiEncoding"))}}
            if fname.endswith("x"):
                res["ExtGState"] = {"GS%d" % n.nid: {"Type": N("ExtGState"), "LW": 2}}
            d["Resources"] = val(res)
        for a in getattr(n, "null_keys", []):
            if a not in n.attrs:        # (fix() may have given the page a MediaBox / Resources after the keys were drawn)
                d[a] = None
        n.blank = None
        if n.is_page and rng.random() < 0.08:
            # a page without content (/Contents is optional): still a page, with its own box and rotation
            n.blank = rng.choice(["absent", "empty_array"])
            d.update({"Type": N("Page")})
            if n.blank == "empty_array":
                d["Contents"] = []
        elif n.is_page:
            eff = eff_by_nid.get(n.nid)
            ops = []
            if eff is not None:
                for i, (x, y) in enumerate(corner_points(eff["MediaBox"])):
                    ops.append(b"BT /F1 10 Tf 1 0 0 1 %d %d Tm (%s) Tj ET" % (x, y, bytes([65 + i])))
                x0, y0, x1, y1 = eff["MediaBox"]
                ops.append(b"BT /F1 8 Tf 1 0 0 1 %d %d Tm (pg%dq) Tj ET" % (x0 + 40, y0 + 60, n.nid))
            d.update({"Type": N("Page"), "Contents": doc.add(Stream({}, b"\n".join(ops)))})
        else:
            kids: List[Any] = [k.ref for k in n.kids]
            for pos, target in sorted(n.extra_kid_refs, key=lambda t: -t[0]):
                kids.insert(min(pos, len(kids)), target.ref)
            d.update({"Type": N("Pages"), "Kids": kids if rng.random() < 0.8 else doc.add(kids),
                      "Count": sum(1 for x in all_nodes(n) if x.is_page)})
        if n.nid in parent_of:
            d["Parent"] = parent_of[n.nid].ref
        doc.set(n.ref, d)
    doc.set(cat, {"Type": N("Catalog"), "Pages": root.ref})
    doc.trailer["Root"] = cat
    data = doc.build(xref=rng.choice(["table", "stream"]))
    return data, {n.nid: n.ref.n for n in nodes}


def norm_rotate(r: int) -> int:
    return r % 360


def expected_device(pt: Tuple[int, int], mb: List[int], rot: int) -> Tuple[int, int]:
    x, y = pt
    x0, y0, x1, y1 = mb
    r = norm_rotate(rot)
    if r == 0:
        return (x - x0, y - y0)
    if r == 90:
        return (y - y0, x1 - x)
    if r == 180:
        return (x1 - x, y1 - y)
    if r == 270:
        return (y1 - y, x - x0)
    raise ValueError(rot)


def expected_page_bbox(mb: List[int], rot: int) -> Tuple[int, int, int, int]:
    w, h = mb[2] - mb[0], mb[3] - mb[1]
    return (0, 0, w, h) if norm_rotate(rot) in (0, 180) else (0, 0, h, w)


def flatten_chars(item: Any) -> List[Any]:
    from pdfminer.layout import LTChar, LTContainer

    out: List[Any] = []
    st = [item]
    while st:
        x = st.pop()
        if isinstance(x, LTChar):
            out.append(x)
        elif isinstance(x, LTContainer):
            st.extend(reversed(list(x)))
    return out


def observe_pages(data: bytes, via: str) -> List[Dict[str, Any]]:
    """-> per page: attrs from PDFPage, LTPage.bbox, chars [(text, fontname, e, f)]"""
    from pdfminer.converter import PDFPageAggregator
    from pdfminer.high_level import extract_pages
    from pdfminer.pdfinterp import PDFPageInterpreter, PDFResourceManager
    from pdfminer.pdfpage import PDFPage

    pages = list(PDFPage.get_pages(io.BytesIO(data)))
    res: List[Dict[str, Any]] = []
    if via == "aggregator":
        rm = PDFResourceManager()
        dev = PDFPageAggregator(rm, laparams=None)
        it = PDFPageInterpreter(rm, dev)
        lts = []
        for p in pages:
            it.process_page(p)
            lts.append(dev.get_result())
    else:
        lts = list(extract_pages(io.BytesIO(data)))
    for i, p in enumerate(pages):
        lt = lts[i] if i < len(lts) else None
        chars = []
        if lt is not None:
            for c in flatten_chars(lt):
                chars.append((c.get_text(), c.fontname, c.matrix[4], c.matrix[5]))
        entry = {"pageid": p.pageid, "mediabox": tuple(p.mediabox), "cropbox": tuple(p.cropbox), "rotate": p.rotate,
                 "resources": p.resources, "bbox": tuple(lt.bbox) if lt is not None else None, "chars": chars}
        try:
            from pdfminer.pdftypes import dict_value

            # the page object as the document hands it out AFTER the pages were enumerated (object cache on)
            entry["own_keys"] = sorted(a for a in dict_value(p.doc.getobj(p.pageid)) if a in ("MediaBox", "CropBox", "Rotate", "Resources"))
        except Exception:  # noqa: BLE001
            pass
        res.append(entry)
    if len(lts) != len(pages):
        res.append({"count_mismatch": (len(pages), len(lts))})
    return res


def check_rotation_option(rec, data: bytes, ref_pages, rotation: int) -> List[Tuple[str, str]]:
    """extract_text_to_fp(rotation=r) turns every page by r in addition to its own Rotate: the page boxes in the XML output
    must be those of Rotate + r reduced to 0-359."""
    import re
    from pdfminer.high_level import extract_text_to_fp

    out = io.BytesIO()
    try:
        extract_text_to_fp(io.BytesIO(data), out, output_type="xml", codec="utf-8", rotation=rotation, laparams=None)
    except Exception as e:  # noqa: BLE001
        return [("rotation_option:exception:%s" % type(e).__name__, "rotation=%d: %s: %s" % (rotation, type(e).__name__, e))]
    # (the rotate attribute of <page> is LTPage.rotate, which the converter never sets: only the box is compared)
    got = re.findall(r'<page id="\d+" bbox="([-0-9.,]+)"', out.getvalue().decode("utf-8"))
    exp = []
    for n, eff in ref_pages:
        bb = expected_page_bbox(eff["MediaBox"], eff.get("Rotate", 0) + rotation)
        exp.append("%.3f,%.3f,%.3f,%.3f" % tuple(float(c) for c in bb))
    rec.count("rotation_option_pages", len(exp))
    if got != exp:
        i = next((k for k, (g, e) in enumerate(zip(got, exp)) if g != e), min(len(got), len(exp)))
        return [("rotation_option", "rotation=%d: page %d of %d: got %r expected %r (Rotate=%r)" % (
            rotation, i, len(exp), got[i] if i < len(got) else None, exp[i] if i < len(exp) else None,
            ref_pages[i][1].get("Rotate", 0) if i < len(ref_pages) else None))]
    return []


def check_tree_doc(rec, data: bytes, ref_pages: List[Tuple[Node, Dict[str, Any]]], objid: Dict[int, int], via: str,
                   budget: Optional[int] = None, tag: Optional[str] = None) -> List[Tuple[str, str]]:
    fails: List[Tuple[str, str]] = []

    def k(key: str) -> str:
        return tag if tag else key

    try:
        if budget:
            obs = run_with_budget(lambda: observe_pages(data, via), budget)
        else:
            obs = observe_pages(data, via)
    except StepBudgetExceeded as e:
        return [("step_budget", str(e))]
    except RecursionError as e:
        return [("exception:RecursionError", repr(e)[:200])]
    except Exception as e:  # noqa: BLE001
        return [(k("exception:%s" % type(e).__name__), "%s: %s" % (type(e).__name__, e))]
    exp_ids = [objid[n.nid] for n, _ in ref_pages]
    got_ids = [o.get("pageid") for o in obs if "pageid" in o]
    if got_ids != exp_ids:
        return [(k("page_order"), "expected pages (object ids) %s, got %s" % (exp_ids, got_ids))]
    for (n, eff), o in zip(ref_pages, obs):
        rec.count("pages_checked")
        inherited = [a for a in ("MediaBox", "CropBox", "Rotate", "Resources") if a in eff and a not in n.attrs]
        if inherited:
            rec.count("inherited_attr_pages")
        mb = eff["MediaBox"]
        rot = eff.get("Rotate", 0)
        rec.see("rotate_values", rot)
        ctx = "page nid=%d obj=%d via=%s" % (n.nid, objid[n.nid], via)
        if o["mediabox"] != tuple(float(c) for c in mb):
            fails.append((k("mediabox"), "%s: mediabox %r expected %r (inherited=%s)" % (ctx, o["mediabox"], mb, "MediaBox" in inherited)))
        cb = eff.get("CropBox", mb)
        if o["cropbox"] != tuple(float(c) for c in cb):
            fails.append((k("cropbox"), "%s: cropbox %r expected %r" % (ctx, o["cropbox"], cb)))
        if o["rotate"] != norm_rotate(rot):
            fails.append((k("rotate"), "%s: rotate %r expected %r (Rotate=%r)" % (ctx, o["rotate"], norm_rotate(rot), rot)))
        fontname = "Helvetica-" + eff["Resources"]
        try:
            got_font = o["resources"]["Font"]["F1"]
            from pdfminer.pdftypes import resolve1
            got_base = resolve1(got_font)["BaseFont"].name
        except Exception as e:  # noqa: BLE001
            got_base = "<%s>" % type(e).__name__
        if got_base != fontname:
            fails.append((k("resources"), "%s: Resources give F1=%r expected %r" % (ctx, got_base, fontname)))
        else:
            exp_cats = ["ExtGState", "Font"] if fontname.endswith("x") else ["Font"]
            if sorted(o["resources"]) != exp_cats:
                fails.append((k("resources_mixed"), "%s: Resources categories %r expected %r (the dictionary of the nearest node only)" % (ctx, sorted(o["resources"]), exp_cats)))
            rec.count("resource_category_sets_checked")
        if getattr(n, "null_keys", None) and any(a not in n.attrs for a in n.null_keys):
            rec.count("pages_with_null_valued_inheritable_key")
        if "own_keys" in o:
            exp_own = sorted(a for a in ("MediaBox", "CropBox", "Rotate", "Resources") if a in n.attrs)
            rec.count("page_objects_reread_after_enumeration")
            if o["own_keys"] != exp_own:
                fails.append((k("page_object_changed_by_enumeration"), "%s: getobj(%d) after the pages were enumerated has inheritable keys %r, the file defines %r"
                              % (ctx, objid[n.nid], o["own_keys"], exp_own)))
        if o["bbox"] is None or tuple(o["bbox"]) != tuple(float(c) for c in expected_page_bbox(mb, rot)):
            fails.append((k("ltpage_bbox"), "%s: LTPage.bbox %r expected %r (MediaBox %r Rotate %r)" % (ctx, o["bbox"], expected_page_bbox(mb, rot), mb, rot)))
        exp_chars = []
        for i, pt in enumerate(corner_points(mb)):
            ex, ey = expected_device(pt, mb, rot)
            exp_chars.append((chr(65 + i), fontname, float(ex), float(ey)))
        if getattr(n, "blank", None):
            exp_chars = []
            rec.count("pages_without_content")
        got_chars = [c for c in o["chars"] if c[0] in "ABCDE" and len(c[0]) == 1][:5]
        if via == "extract_pages":  # layout analysis reorders the glyphs; the aggregator path checks the order
            got_chars.sort(key=lambda c: c[0])
        rec.count("glyphs_checked", len(got_chars))
        if [(c[0], c[1], float(c[2]), float(c[3])) for c in got_chars] != exp_chars:
            what = "glyph_font" if [c[:1] + c[2:] for c in got_chars] == [c[:1] + c[2:] for c in exp_chars] else "glyph_origin:rot%d" % norm_rotate(rot)
            fails.append((k(what), "%s: glyphs %r expected %r (MediaBox %r Rotate %r)" % (ctx, got_chars, exp_chars, mb, rot)))
    return fails


# --------------------------------------------------------------------------
# selection
# --------------------------------------------------------------------------
def selection_expected(n: int, page_numbers: Optional[Any], maxpages: int) -> List[int]:
    return [i for i in range(n) if (page_numbers is None or i in page_numbers) and (maxpages == 0 or i < maxpages)]


def page_words(text_by_page: List[str]) -> List[str]:
    return [t.strip() for t in text_by_page]


def check_selection(rec, data: bytes, n: int, objids: List[int], page_numbers: Optional[Any], maxpages: int) -> List[Tuple[str, str]]:
    from pdfminer.high_level import extract_pages, extract_text
    from pdfminer.pdfpage import PDFPage

    fails: List[Tuple[str, str]] = []
    exp = selection_expected(n, page_numbers, maxpages)
    sel = "page_numbers=%r maxpages=%d n=%d" % (page_numbers, maxpages, n)
    try:
        got = [p.pageid for p in PDFPage.get_pages(io.BytesIO(data), pagenos=page_numbers, maxpages=maxpages)]
        if got != [objids[i] for i in exp]:
            fails.append(("selection:get_pages", "%s: get_pages yields indices %s expected %s" % (sel, [objids.index(g) if g in objids else g for g in got], exp)))
        lts = list(extract_pages(io.BytesIO(data), page_numbers=page_numbers, maxpages=maxpages))
        words = ["".join(c.get_text() for c in flatten_chars(lt)) for lt in lts]
        if words != ["pg%dq" % i for i in exp]:
            fails.append(("selection:extract_pages", "%s: extract_pages gives %s expected pages %s" % (sel, words, exp)))
        txt = extract_text(io.BytesIO(data), page_numbers=page_numbers, maxpages=maxpages)
        parts = txt.split("\f")
        if parts and parts[-1] == "":
            parts = parts[:-1]
        if [p.strip() for p in parts] != ["pg%dq" % i for i in exp]:
            fails.append(("selection:extract_text", "%s: extract_text gives %r expected pages %s" % (sel, txt[:120], exp)))
    except Exception as e:  # noqa: BLE001
        fails.append(("selection:exception:%s" % type(e).__name__, "%s: %s: %s" % (sel, type(e).__name__, e)))
    rec.count("selections_checked")
    return fails


_TOOLS: Dict[str, Any] = {}


def _tool(name: str) -> Any:
    """tools/<name>.py of the tree under test, imported by path (the tools are scripts, not a package)."""
    import importlib.util

    from vf import REPO

    if name not in _TOOLS:
        spec = importlib.util.spec_from_file_location("vf_c04_tool_" + name, os.path.join(REPO, "tools", name + ".py"))
        mod = importlib.util.module_from_spec(spec)    # type: ignore[arg-type]
        spec.loader.exec_module(mod)                    # type: ignore[union-attr]
        _TOOLS[name] = mod
    return _TOOLS[name]


def check_selection_tools(rec, data: bytes, n: int, sel: List[int], maxpages: int, workdir: str) -> List[Tuple[str, str]]:
    """The same selection through the repository's command-line tools (one-based page numbers): pdf2txt.py -p / --pagenos /
    --page-numbers / -m and dumppdf.py -p / --pagenos / --page-numbers.  Page i of the flat document shows 'pg<i>q' and has
    MediaBox width 200+i."""
    import contextlib
    import re

    fails: List[Tuple[str, str]] = []
    path = os.path.join(workdir, "in.pdf")
    outp = os.path.join(workdir, "out.txt")
    with open(path, "wb") as f:
        f.write(data)
    one = [i + 1 for i in sel]
    spellings = [("-p", [",".join(map(str, one))]), ("--pagenos", [",".join(map(str, one))]), ("--page-numbers", [str(x) for x in one])]
    for opt, vals in spellings:
        what = "%s %s" % (opt, " ".join(vals))
        # pdf2txt
        exp = [i for i in range(n) if i in sel and (maxpages == 0 or i < maxpages)]
        args = [path, "-o", outp, opt] + vals + (["-m", str(maxpages)] if maxpages else [])
        try:
            with contextlib.redirect_stdout(io.StringIO()):
                _tool("pdf2txt").main(args)
            with open(outp, encoding="utf-8") as f:
                parts = f.read().split("\f")
            got = [p.strip() for p in parts if p.strip()]
            if got != ["pg%dq" % i for i in exp]:
                fails.append(("selection:pdf2txt:" + opt, "pdf2txt %s -m %d on %d pages gives %s, expected pages %s" % (what, maxpages, n, got[:8], exp)))
        except (Exception, SystemExit) as e:  # noqa: BLE001
            fails.append(("selection:pdf2txt:exception:%s" % type(e).__name__, "pdf2txt %s: %s: %s" % (what, type(e).__name__, e)))
        rec.count("tool_selections:pdf2txt")
        # dumppdf (no maxpages option)
        exp = [i for i in range(n) if i in sel]
        try:
            with contextlib.redirect_stdout(io.StringIO()):
                _tool("dumppdf").main([path, "-o", outp, opt] + vals)
            with open(outp, encoding="utf-8") as f:
                text = f.read()
            widths = []
            for chunk in text.split("<key>MediaBox</key>")[1:]:
                nums = re.findall(r"<number>(-?\d+)</number>", chunk)
                widths.append(int(nums[2]) - 200)
            if widths != exp:
                fails.append(("selection:dumppdf:" + opt, "dumppdf %s on %d pages dumps pages %s, expected %s" % (what, n, widths, exp)))
        except (Exception, SystemExit) as e:  # noqa: BLE001
            fails.append(("selection:dumppdf:exception:%s" % type(e).__name__, "dumppdf %s: %s: %s" % (what, type(e).__name__, e)))
        rec.count("tool_selections:dumppdf")
    return fails


def build_flat_doc(n: int) -> Tuple[bytes, List[int]]:
    from vf.gen.pdfw import font_type1, page_doc

    pages = [{"content": b"BT /F1 12 Tf 50 100 Td (pg%dq) Tj ET" % i, "resources": {"Font": {"F1": font_type1()}},
              "mediabox": [0, 0, 200 + i, 200]} for i in range(n)]
    doc = page_doc(pages)
    data = doc.build()
    kids = doc.objs[2]["Kids"]
    return data, [r.n for r in kids]


# --------------------------------------------------------------------------
def make_tree_case(seed_str: str, tier: str, cyclic: bool = False, revbox: bool = False):
    rng = random.Random(seed_str)
    max_pages = 40 if tier == "quick" else rng.choice([12, 40, 120, 300])
    shape = rng.choice(["random", "random", "random", "chain", "flat"])
    if revbox:
        shape, max_pages = "random", 6
    root = gen_tree(rng, max_pages, shape)
    place_attrs(rng, root)
    revbox_nid = None
    if revbox:
        cands = [n for n in all_nodes(root) if "MediaBox" in n.attrs]
        revbox_nid = rng.choice(cands).nid
    if cyclic:
        # any path may become the path of first visit: give the root every required attribute
        root.attrs.setdefault("MediaBox", [0, 0, 400, 500])
        root.attrs.setdefault("Resources", "font%d" % root.nid)
        nodes = all_nodes(root)
        inner = [n for n in nodes if not n.is_page]
        for _ in range(rng.randint(1, 4)):
            host = rng.choice(inner)
            kind = rng.choice(["self", "ancestor", "repeat_page", "repeat_subtree", "root"])
            if kind == "self":
                target = host
            elif kind == "root":
                target = root
            elif kind == "ancestor":
                target = rng.choice(inner)
            elif kind == "repeat_page":
                target = rng.choice([n for n in nodes if n.is_page])
            else:
                target = rng.choice(nodes)
            host.extra_kid_refs.append((rng.randint(0, len(host.kids)), target))
    ref_pages = reference_walk(root)
    data, objid = build_doc(rng, root, ref_pages, revbox_nid)
    depth = _depth(root)
    return root, ref_pages, data, objid, depth


def _depth(n: Node) -> int:
    return 1 + max([_depth(k) for k in n.kids] + [0])


def run_shard(spec: Dict[str, Any], rec) -> None:
    tier = spec["tier"]
    kind = spec["kind"]
    rng = random.Random("C04/%d/%s/%d" % (spec["seed"], kind, spec["sub"]))
    if kind in ("tree", "cyclic", "revbox"):
        for i in range(spec["n"]):
            s = "C04/%d/%s/%d/%d" % (spec["seed"], kind, spec["sub"], i)
            root, ref_pages, data, objid, depth = make_tree_case(s, tier, cyclic=(kind == "cyclic"), revbox=(kind == "revbox"))
            tag = "mediabox_reversed_corners" if kind == "revbox" else None
            for via in (("aggregator", "extract_pages") if i % 3 == 0 else ("aggregator",)):
                budget = None
                if kind == "cyclic":
                    budget = 400000 + 60000 * len(all_nodes(root))
                fails = check_tree_doc(rec, data, ref_pages, objid, via, budget, tag)
                if kind == "cyclic":
                    rec.count("cyclic_docs")
                    rec.count("cyclic_steps_bucket_%d" % min(last_steps() // 100000, 20))
                for key, detail in fails:
                    rec.fail(key, {"seed_str": s, "tier": tier, "kind": kind, "via": via}, detail)
                rec.case(None, False)
            if kind == "tree" and i % 2 == 0:
                rot = rng.choice([90, 180, 270, 360, 450, -90])
                for key, detail in check_rotation_option(rec, data, ref_pages, rot):
                    rec.fail(key, {"seed_str": s, "tier": tier, "kind": kind, "rotation": rot}, detail)
                rec.case(None, False)
            inherited = any(a not in n.attrs for n, eff in ref_pages for a in eff)
            nontriv = depth >= 3 or inherited or kind != "tree" or any(eff.get("Rotate", 0) % 360 for _, eff in ref_pages)
            rec.case(chash(data), nontriv)
            rec.count("docs:" + kind)
            rec.count("tree_depth_%d" % min(depth, 8))
            if rec.want_sample() and 3 <= len(ref_pages) <= 6 and depth >= 3:
                rec.sample({"kind": kind, "pages_in_order": [n.nid for n, _ in ref_pages],
                            "effective": [{k: v for k, v in eff.items()} for _, eff in ref_pages], "own": [n.attrs for n, _ in ref_pages]})
    elif kind == "select":
        for i in range(spec["n"]):
            n = (spec["sub"] + i) % 6 + 1 if i < 6 else rng.randint(6, 14)
            data, objids = build_flat_doc(n)
            cases: List[Tuple[Optional[Any], int]] = []
            if n <= 5:
                subsets = [s for r in range(1, n + 1) for s in itertools.combinations(range(n), r)]
                for sset in subsets:
                    for mp in range(0, n + 2):
                        cases.append((list(sset) if (len(sset) + mp) % 2 else set(sset), mp))
                for mp in range(0, n + 2):
                    cases.append((None, mp))
                if tier == "quick":
                    cases = rng.sample(cases, min(len(cases), 70))
                    rec.count("selection_spaces_sampled")
                else:
                    rec.count("selection_spaces_exhaustive")
            else:
                for _ in range(40):
                    k = rng.randint(1, n)
                    sset = sorted(rng.sample(range(n + 3), k))
                    cases.append((sset if rng.random() < 0.5 else set(sset), rng.randint(0, n + 1)))
            for pn, mp in cases:
                for key, detail in check_selection(rec, data, n, objids, pn, mp):
                    rec.fail(key, {"n": n, "page_numbers": sorted(pn) if pn is not None else None, "maxpages": mp}, detail)
                proper = pn is not None or mp != 0
                rec.case(chash("sel", n, sorted(pn) if pn is not None else None, mp), proper)
            # a sample of the same selections through the command-line tools
            import tempfile

            with tempfile.TemporaryDirectory(prefix="vf04-") as wd:
                tcases = [(sorted(x for x in pn if x < n), mp) for pn, mp in cases if pn is not None and any(x < n for x in pn)]
                for sel, mp in rng.sample(tcases, min(len(tcases), 6)):
                    for key, detail in check_selection_tools(rec, data, n, sel, mp, wd):
                        rec.fail(key, {"n": n, "tool_selection": sel, "maxpages": mp}, detail)
                    rec.case(chash("toolsel", n, sel, mp), True)


class _NullRec:
    def count(self, *a, **k):
        pass

    def see(self, *a, **k):
        pass

    def case(self, *a, **k):
        pass


def replay(case: Dict[str, Any]) -> List[Tuple[str, str]]:
    rec = _NullRec()
    if "tool_selection" in case:
        import tempfile

        data, _ = build_flat_doc(case["n"])
        with tempfile.TemporaryDirectory(prefix="vf04-") as wd:
            return check_selection_tools(rec, data, case["n"], case["tool_selection"], case["maxpages"], wd)
    if "seed_str" in case:
        kind = case["kind"]
        root, ref_pages, data, objid, depth = make_tree_case(case["seed_str"], case.get("tier", "quick"), cyclic=(kind == "cyclic"), revbox=(kind == "revbox"))
        tag = "mediabox_reversed_corners" if kind == "revbox" else None
        budget = 400000 + 60000 * len(all_nodes(root)) if kind == "cyclic" else None
        if "rotation" in case:
            return check_rotation_option(rec, data, ref_pages, case["rotation"])
        return check_tree_doc(rec, data, ref_pages, objid, case.get("via", "aggregator"), budget, tag)
    n = case["n"]
    data, objids = build_flat_doc(n)
    return check_selection(rec, data, n, objids, case["page_numbers"], case["maxpages"])
