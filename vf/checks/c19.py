"""C19 - CCITT Group 4 decoding inverts a conforming encoder for every bitmap.

Workload: bitmaps are encoded by an independent ITU-T T.6 encoder (vf/ref/t6.py:
T.4 run-length tables transcribed twice and validated structurally; mode choice
steerable within what the T.6 mode definitions admit) and framed with the ISO
32000-1 Table 11 options (EncodedByteAlign, EndOfBlock/EOFB, Rows, BlackIs1).

Families
  tables   every T.4 / T.6 code word walked through pdfminer's bit tries
  pairs    EXHAUSTIVE: every (reference line, coding line) pair of width <= W and
           every admissible mode sequence for the coding line (the reference line is
           line 1, coded by the T.6 flow chart; the coding line is line 2), plus every
           admissible encoding of every first line against the imaginary white line
  bitmaps  EXHAUSTIVE: every bitmap of the listed small sizes x {BlackIs1} x
           {EncodedByteAlign} x {EOFB | Rows+EndOfBlock false} x {flow-chart encoder,
           randomly deviating encoder}
  codes    every terminating / make-up / extended make-up code word of both colours
           (runs 0..63, m+t for every make-up m, runs >= 2624 with repeated 2560)
  struct   random and structured wide bitmaps (all white / black, stripes, single
           pels at the edges, geometric runs, runs around 64 / 1728 / 2560 / 2624, lines
           derived from the previous line by moving / deleting / inserting changing
           elements), widths up to 5200, 1-4 lines
  tagged   columns_default: /Columns omitted, width 1728 (ISO default)
           k_negative: /K -2, -7 (Table 11: every K < 0 is Group 4)

Observation: pdfminer.ccitt.ccittfaxdecode(data, params) on every case, and
PDFStream.get_data() through a generated document (image XObjects with /Filter
/CCITTFaxDecode in five spellings of the filter pipeline: name, one-element array, after FlateDecode, after
ASCIIHexDecode, parameters as an indirect object) on every case of the
bitmaps / codes / struct / tagged families and on one framing per encoding of pairs.

Oracle: output length == h * ceil(w/8); in every row the first w bits equal the
pels with the polarity of ISO 32000-1 Table 11 (BlackIs1 false: black = 0, white = 1;
true: black = 1); the pad bits that complete a row's last byte are not constrained by
the specification and are not compared (counted instead).
"""
from __future__ import annotations

import io
import itertools
import random
import zlib
from typing import Any, Dict, List, Optional, Sequence, Tuple

from vf.common import chash
from vf.gen import pdfw
from vf.ref import t6

ID = "C19"
LEVEL = "exploration"
DESIGN_REF = "DESIGN.md#C19"
TECHNIQUE = "round trip against an independent T.6 encoder; exhaustive small bitmaps and exhaustive mode sequences"
RULE = (
    "encoder = vf/ref/t6.py (T.4 tables validated: 64+27+13 codes per colour, prefix-free with EOL, Kraft sum "
    "1-2^-8+2^-12, two independent transcriptions agree). Mode admissibility from the T.6 mode definitions: pass iff "
    "b2<a1, vertical iff |a1-b1|<=3, horizontal always; run lengths always by the T.4 rule (one make-up + terminating "
    "code, 2560 repeated for runs >= 2624). pairs: all (reference,coding) line pairs of width<=6 (quick) / <=9 "
    "(thorough) x ALL admissible mode sequences x framings; bitmaps: all bitmaps w<=6 x h<=2, w<=4 x h=3 (thorough "
    "adds w<=8 x h=2, w=5 x h=3, w<=4 x h=4) x BlackIs1 x EncodedByteAlign x EOFB/Rows x {flow-chart, random "
    "deviation}; codes: every run-length code word of both colours; struct: random/structured lines up to width "
    "5200. Left out as ambiguous: EOFB not byte aligned when EncodedByteAlign is true; data after the last line "
    "other than EOFB and zero pad bits; indirect objects as DecodeParms values. distinct = distinct (width, bitmap, "
    "encoded bytes, parameters); non-trivial = the bitmap has at least one black pel (something other than V0 per "
    "line must be decoded)."
)
LEVEL_TEXT = (
    "Every bitmap and every admissible encoding in the enumerated small domain was decoded and compared bit for bit; "
    "beyond it the evidence is a sample (random and structured lines up to 5200 pels) in which every mode code and "
    "every run-length code word of both colours was decoded at least once. Nothing is claimed for encodings outside "
    "the T.6 definitions (uncompressed mode, malformed data)."
)
ASSUMPTIONS = [
    "vf/ref/t6.py transcribes T.4 tables 2, 3a, 3b and T.6 table 1 correctly (structural self-test at import: counts, "
    "prefix-freeness with EOL, exact Kraft sum, agreement of two transcriptions, encoder/reference-decoder round trip)",
    "ISO 32000-1 Table 11 polarity: BlackIs1 false means 0 = black, 1 = white in the decoded data",
    "pad bits completing the last byte of a decoded row are unconstrained (masked in the comparison)",
    "with EncodedByteAlign true the EOFB, like a line, starts on a byte boundary (the unaligned form is left out)",
    "zlib and the pdfw writer are trusted for the document wrapping",
]
SHARD_TIMEOUT = {"quick": 600, "thorough": 3600}

MODES = ["P", "H", "V0", "VR1", "VR2", "VR3", "VL1", "VL2", "VL3"]
NS_KINDS = ["H_for_V", "H_for_P", "V_for_P"]
FORMS = ["name", "array", "flate", "ahx", "ref"]
PDF_BATCH = 250

# exhaustive domains ---------------------------------------------------------
PAIR_W = {"quick": 6, "thorough": 9}
BITMAP_SIZES = {
    "quick": [(w, h) for h in (1, 2) for w in range(1, 7)] + [(w, 3) for w in range(1, 5)],
    "thorough": [(w, h) for h in (1, 2) for w in range(1, 9)] + [(w, 3) for w in range(1, 6)] + [(w, 4) for w in range(1, 5)],
}
# framings applied to one encoding: (align, eofb, blackis1)
FRAMINGS = [(a, e, b) for a in (False, True) for e in (True, False) for b in (False, True)]


def _pair_framings(tier: str, w: int) -> int:
    """How many of the 8 framings each (ref, cur, encoding) triple is decoded under."""
    if w <= 6:
        return 8
    return 2 if w <= 8 else 1


def minimums(tier: str) -> Dict[str, int]:
    m: Dict[str, int] = {}
    if tier == "quick":
        m.update({"evaluations": 570000, "distinct": 450000, "pdf_streams_checked": 220000,
                  "family:pairs": 390000, "family:bitmaps": 160000, "family:struct": 9000, "family:codes": 8000,
                  "wide_ge_1728": 3000, "wide_ge_2624": 800, "run_ge_2624": 300})
        lo = 5000
    else:
        m.update({"evaluations": 11000000, "distinct": 10000000, "pdf_streams_checked": 9500000,
                  "family:pairs": 8000000, "family:bitmaps": 3000000, "family:struct": 140000, "family:codes": 8000,
                  "wide_ge_1728": 40000, "wide_ge_2624": 12000, "run_ge_2624": 5000})
        lo = 50000
    for md in MODES:
        m["mode:" + md] = lo
    for k in NS_KINDS:
        m["ns:" + k] = lo
    m["seen:codes_W"] = 104
    m["seen:codes_B"] = 104
    m["seen:table_entries"] = 104 + 104 + 10
    m["t6_encoder_vs_reference_decoder_roundtrips"] = 30000
    m["framing:align"] = lo
    m["framing:eofb"] = lo
    m["framing:rows_no_eofb"] = lo
    m["framing:blackis1"] = lo
    m["align_pad_bits"] = lo
    for f in FORMS:
        m["pdf_form:" + f] = lo
    # exhaustive domains must be complete
    for w in range(1, PAIR_W[tier] + 1):
        m["exh_pairs:w%d" % w] = 4 ** w
        m["exh_first:w%d" % w] = 2 ** w
    for w, h in BITMAP_SIZES[tier]:
        m["exh_bitmaps:w%dh%d" % (w, h)] = 2 ** (w * h)
    return m


def shards(tier: str, seed: int) -> List[Dict[str, Any]]:
    out: List[Dict[str, Any]] = []
    out.append({"kind": "tables"})
    # pairs: split the reference lines so that shards have similar cost
    for w in range(1, PAIR_W[tier] + 1):
        nref = 2 ** w
        per = {1: 2, 2: 4, 3: 8, 4: 16, 5: 32, 6: 8, 7: 8, 8: 8, 9: 4}[w]
        for lo in range(0, nref, per):
            out.append({"kind": "pairs", "w": w, "lo": lo, "hi": min(nref, lo + per), "sub": 1000 + w * 600 + lo})
    # bitmaps
    sub = 0
    for w, h in BITMAP_SIZES[tier]:
        n = 2 ** (w * h)
        per = 1024
        for lo in range(0, n, per):
            out.append({"kind": "bitmaps", "w": w, "h": h, "lo": lo, "hi": min(n, lo + per), "sub": 20000 + sub})
            sub += 1
    # codes
    ncodes = 4 if tier == "quick" else 8
    for k in range(ncodes):
        out.append({"kind": "codes", "part": k, "parts": ncodes, "sub": 30000 + k})
    # struct
    nstruct = 16 if tier == "quick" else 96
    per = 600 if tier == "quick" else 1500
    for k in range(nstruct):
        out.append({"kind": "struct", "n": per, "sub": 40000 + k})
    out.append({"kind": "tagged", "sub": 50000})
    return out


# --------------------------------------------------------------------------
# oracle
# --------------------------------------------------------------------------
def pack_rows(rows: Sequence[Sequence[int]], one_is: int) -> bytes:
    """Rows of 0/1 pels -> bytes, MSB first, each row padded with zero bits; a pel equal to `one_is` gives bit 1."""
    out = bytearray()
    for r in rows:
        n = len(r)
        s = "".join("1" if v == one_is else "0" for v in r)
        pad = -n % 8
        out += int(s + "0" * pad, 2).to_bytes((n + pad) // 8, "big")
    return bytes(out)


def unpack_rows(b: bytes, w: int, h: int) -> List[List[int]]:
    rb = (w + 7) // 8
    rows = []
    for r in range(h):
        s = "".join(format(x, "08b") for x in b[r * rb:(r + 1) * rb])
        rows.append([int(c) for c in s[:w]])
    return rows


class Verdict:
    __slots__ = ("ok", "kind", "row", "col", "pad_nonzero", "detail")

    def __init__(self) -> None:
        self.ok = True
        self.kind = ""
        self.row = -1
        self.col = -1
        self.pad_nonzero = False
        self.detail = ""


def compare(out: Any, rows: Sequence[Sequence[int]], w: int, blackis1: bool) -> Verdict:
    v = Verdict()
    exp = pack_rows(rows, t6.BLACK if blackis1 else t6.WHITE)
    if not isinstance(out, (bytes, bytearray)):
        v.ok, v.kind, v.detail = False, "not_bytes", "returned %r" % type(out).__name__
        return v
    if out == exp:
        return v
    rb = (w + 7) // 8
    h = len(rows)
    if len(out) != len(exp):
        v.ok = False
        v.kind = "rows_missing" if len(out) < len(exp) else "rows_extra"
        v.detail = "decoded %d bytes = %s rows of %d bytes, expected %d rows" % (
            len(out), ("%d" % (len(out) // rb)) if len(out) % rb == 0 else "%.2f" % (len(out) / rb), rb, h)
        # locate the first wrong pel within the common part, it names the mechanism better than the length
    mask = (0xFF << (-w % 8)) & 0xFF
    for r in range(min(h, len(out) // rb)):
        a, b = out[r * rb:(r + 1) * rb], exp[r * rb:(r + 1) * rb]
        if a == b:
            continue
        if a[:-1] == b[:-1] and (a[-1] & mask) == (b[-1] & mask):
            v.pad_nonzero = True
            continue
        for i in range(rb):
            x = a[i] ^ b[i]
            if i == rb - 1:
                x &= mask
            if x:
                col = i * 8 + (8 - x.bit_length())
                v.ok, v.row, v.col = False, r, col
                if not v.kind:
                    v.kind = "pixel_mismatch"
                v.detail += " first wrong pel: row %d col %d (got row %s, expected %s)" % (
                    r, col, a.hex()[:80], b.hex()[:80])
                return v
    return v


def _blame(e: BaseException) -> str:
    tb = e.__traceback__
    fn = "?"
    while tb is not None:
        if "pdfminer" in tb.tb_frame.f_code.co_filename:
            fn = tb.tb_frame.f_code.co_name
        tb = tb.tb_next
    return "exception:%s:%s" % (type(e).__name__, fn)


# --------------------------------------------------------------------------
# cases
# --------------------------------------------------------------------------
def make_cfg(align: bool, eofb: bool, blackis1: bool, style: int = 0, form: str = "name", columns: bool = True,
             K: int = -1) -> Dict[str, Any]:
    return {"align": align, "eofb": eofb, "blackis1": blackis1, "style": style, "form": form, "columns": columns, "K": K}


def decode_parms(w: int, h: int, cfg: Dict[str, Any]) -> Dict[str, Any]:
    """The DecodeParms entries (python values) that describe the framing of this case.

    style bit 0: spell out entries that have their default value (BlackIs1 false, EncodedByteAlign false,
    EndOfBlock true); style bit 1: give /Rows although an EOFB terminates the data, respectively leave /Rows
    out although there is no EOFB (the data simply end)."""
    st = cfg["style"]
    d: Dict[str, Any] = {"K": cfg["K"]}
    if cfg["columns"]:
        d["Columns"] = w
    if not cfg["eofb"]:
        # Table 11: without EndOfBlock the filter stops after Rows lines or at the end of its data, whichever
        # comes first; the data end right after the last line (zero pad bits only), so /Rows may also be absent
        if not st & 2:
            d["Rows"] = h
        d["EndOfBlock"] = False
    else:
        if st & 2:
            d["Rows"] = h
        if st & 1:
            d["EndOfBlock"] = True
    if cfg["blackis1"] or st & 1:
        d["BlackIs1"] = bool(cfg["blackis1"])
    if cfg["align"] or st & 1:
        d["EncodedByteAlign"] = bool(cfg["align"])
    return d


def new_case(family: str, w: int, rows: Sequence[Sequence[int]], data: bytes, cfg: Dict[str, Any],
             modes: Any = None, tag: Optional[str] = None) -> Dict[str, Any]:
    return {"family": family, "w": w, "h": len(rows), "bitmap": pack_rows(rows, t6.BLACK), "data": data, "cfg": cfg,
            "modes": modes, "tag": tag}


def _script(modes: Sequence[str]):
    it = iter(modes)

    def ch(st: t6.Step) -> str:
        return next(it)

    return ch


def _mechanism(case: Dict[str, Any], rows: List[List[int]], v: Verdict) -> str:
    """Name the coding step that produced the first wrong pel (from the stored mode lists)."""
    modes = case.get("modes")
    if not modes or v.row < 0 or v.row >= len(modes):
        return v.kind
    try:
        ref = rows[v.row - 1] if v.row > 0 else [t6.WHITE] * case["w"]
        tr: List[Tuple[str, int, int]] = []
        t6.encode_row(ref, rows[v.row], _script(list(modes[v.row])), None, tr)
        for m, lo, hi in tr:
            if lo <= v.col < hi:
                return "%s:%s" % (v.kind, m)
    except Exception:  # noqa: BLE001 - attribution only
        pass
    return v.kind


def run_direct(case: Dict[str, Any]) -> Tuple[Optional[Tuple[str, str]], Verdict]:
    """Decode through ccittfaxdecode; -> ((key, detail) | None, verdict)."""
    from pdfminer.ccitt import ccittfaxdecode

    w, h, cfg = case["w"], case["h"], case["cfg"]
    rows = unpack_rows(case["bitmap"], w, h)
    params = decode_parms(w, h, cfg)
    try:
        out = ccittfaxdecode(case["data"], params)
    except RecursionError as e:
        return ("exception:RecursionError", repr(e)), Verdict()
    except Exception as e:  # noqa: BLE001
        return (_blame(e), "ccittfaxdecode(%d bytes, %r) raised %r" % (len(case["data"]), params, e)), Verdict()
    v = compare(out, rows, w, cfg["blackis1"])
    if v.ok:
        return None, v
    key = _mechanism(case, rows, v)
    return (key, "ccittfaxdecode w=%d h=%d params=%r data=%s:%s" % (w, h, params, case["data"].hex()[:120], v.detail)), v


def _stream_for(case: Dict[str, Any], doc: pdfw.Doc) -> pdfw.Stream:
    w, h, cfg = case["w"], case["h"], case["cfg"]
    parms = decode_parms(w, h, cfg)
    data = case["data"]
    form = cfg["form"]
    N = pdfw.N
    d: Dict[str, Any] = {"Type": N("XObject"), "Subtype": N("Image"), "Width": w, "Height": h,
                         "ColorSpace": N("DeviceGray"), "BitsPerComponent": 1}
    if form == "name":
        d["Filter"] = N("CCITTFaxDecode")
        d["DecodeParms"] = parms
    elif form == "array":
        d["Filter"] = [N("CCITTFaxDecode")]
        d["DecodeParms"] = [parms]
    elif form == "flate":
        d["Filter"] = [N("FlateDecode"), N("CCITTFaxDecode")]
        d["DecodeParms"] = [None, parms]
        data = zlib.compress(data)
    elif form == "ahx":
        d["Filter"] = [N("ASCIIHexDecode"), N("CCITTFaxDecode")]
        d["DecodeParms"] = [None, parms]
        data = data.hex().upper().encode() + b">"
    elif form == "ref":  # the parameter dictionary is an indirect object
        d["Filter"] = N("CCITTFaxDecode")
        d["DecodeParms"] = doc.add(parms)
    else:
        raise ValueError(form)
    return pdfw.Stream(d, data)


def run_pdf(cases: Sequence[Dict[str, Any]]) -> List[Optional[Tuple[str, str]]]:
    """Put every case into one document as an image XObject, read it back with pdfminer, decode with get_data()."""
    from pdfminer.pdfdocument import PDFDocument
    from pdfminer.pdfparser import PDFParser
    from pdfminer.pdftypes import PDFStream

    doc = pdfw.Doc()
    refs = [doc.add(_stream_for(c, doc)) for c in cases]
    xo = {"Im%d" % i: r for i, r in enumerate(refs)}
    pdfw.page_doc([{"content": b"", "resources": {"XObject": xo}}], doc=doc)
    blob = doc.build()
    res: List[Optional[Tuple[str, str]]] = []
    try:
        pd = PDFDocument(PDFParser(io.BytesIO(blob)))
    except Exception as e:  # noqa: BLE001
        return [("pdf_open:" + _blame(e), repr(e))] * len(cases)
    for c, r in zip(cases, refs):
        w, h, cfg = c["w"], c["h"], c["cfg"]
        try:
            st = pd.getobj(r.n)
            if not isinstance(st, PDFStream):
                res.append(("pdf_not_a_stream", repr(st)))
                continue
            out = st.get_data()
        except RecursionError as e:
            res.append(("exception:RecursionError", repr(e)))
            continue
        except Exception as e:  # noqa: BLE001
            res.append((_blame(e), "PDFStream.get_data() form=%s parms=%r raised %r" % (
                cfg["form"], decode_parms(w, h, cfg), e)))
            continue
        rows = unpack_rows(c["bitmap"], w, h)
        v = compare(out, rows, w, cfg["blackis1"])
        if v.ok:
            res.append(None)
        else:
            res.append((_mechanism(c, rows, v), "PDFStream.get_data() form=%s w=%d h=%d parms=%r:%s" % (
                cfg["form"], w, h, decode_parms(w, h, cfg), v.detail)))
    return res


def _keyed(case: Dict[str, Any], key: str) -> str:
    return case["tag"] if case.get("tag") else key


class Session:
    """Per-shard driver: direct observation at once, document observation in batches."""

    def __init__(self, rec) -> None:
        self.rec = rec
        self.batch: List[Tuple[Dict[str, Any], Optional[str]]] = []
        self.nform = 0

    def submit(self, case: Dict[str, Any], pdf: bool = True, count_eval: bool = True) -> None:
        rec = self.rec
        cfg = case["cfg"]
        fail, v = run_direct(case)
        nontrivial = any(case["bitmap"])
        if count_eval:
            rec.case(chash(case["w"], case["bitmap"], case["data"], decode_parms(case["w"], case["h"], cfg)), nontrivial)
        rec.count("family:" + case["family"])
        rec.count("framing:align" if cfg["align"] else "framing:no_align")
        rec.count("framing:eofb" if cfg["eofb"] else "framing:rows_no_eofb")
        rec.count("framing:blackis1" if cfg["blackis1"] else "framing:blackis0")
        if v.pad_nonzero:
            rec.count("row_pad_bits_nonzero")
        dkey = None
        if fail is not None:
            dkey = _keyed(case, fail[0])
            rec.fail(dkey, case, fail[1])
        if pdf:
            self.batch.append((case, dkey))
            if len(self.batch) >= PDF_BATCH:
                self.flush()
        if rec.want_sample() and case["h"] >= 2 and case["w"] >= 5 and nontrivial and case["family"] in ("struct", "bitmaps"):
            rec.sample({"family": case["family"], "w": case["w"], "h": case["h"],
                        "rows": ["".join(map(str, r))[:96] for r in unpack_rows(case["bitmap"], case["w"], case["h"])],
                        "data": case["data"][:64], "parms": decode_parms(case["w"], case["h"], cfg),
                        "modes": [list(m)[:24] for m in (case.get("modes") or [])]})

    def flush(self) -> None:
        if not self.batch:
            return
        cases = [c for c, _ in self.batch]
        res = run_pdf(cases)
        for (c, dkey), r in zip(self.batch, res):
            self.rec.count("pdf_streams_checked")
            self.rec.count("pdf_form:" + c["cfg"]["form"])
            if r is not None:
                k = _keyed(c, r[0])
                # the same mechanism already reported by the direct call is not reported twice
                if k != dkey:
                    self.rec.fail(k if dkey is None else "pdf:" + k, c, r[1])
        self.batch = []

    def next_form(self) -> str:
        self.nform += 1
        return FORMS[self.nform % len(FORMS)]


def _absorb(rec, stats: Dict[str, int]) -> None:
    for k, n in stats.items():
        if k.startswith("code:"):
            _, col, val = k.split(":")
            rec.see("codes_" + col, int(val))
            if int(val) == 2560 and n > 1:
                rec.count("makeup_2560_total", n)
        else:
            rec.count(k, n)


def _count_align_pad(rec, rbits: Sequence[str]) -> None:
    n = 0
    pad = 0
    for b in rbits:
        if n % 8:
            pad += 8 - n % 8
            n += 8 - n % 8
        n += len(b)
    if pad:
        rec.count("align_pad_bits", pad)


# --------------------------------------------------------------------------
# family: tables
# --------------------------------------------------------------------------
def _walk(root: Any, bits: str) -> Any:
    p = root
    for c in bits:
        if not isinstance(p, list):
            return ("leaf-too-early", p)
        p = p[1 if c == "1" else 0]
    return p


def check_tables() -> Tuple[List[Tuple[str, str]], List[str]]:
    """Every code word of T.4 / T.6 must lead, in pdfminer's trie, to the leaf that stands for it."""
    from pdfminer.ccitt import CCITTG4Parser as P

    fails: List[Tuple[str, str]] = []
    seen: List[str] = []
    for name, root, colour in (("WHITE", P.WHITE, t6.WHITE), ("BLACK", P.BLACK, t6.BLACK)):
        for n, bits in sorted(t6.CODES[colour].items()):
            got = _walk(root, bits)
            seen.append("%s:%d" % (name, n))
            if got != n or isinstance(got, bool):
                fails.append(("table:%s" % name, "T.4 %s run %d is %s; pdfminer's trie gives %r" % (name, n, bits, got)))
    want = {"P": "p", "H": "h", "V0": 0, "VR1": 1, "VR2": 2, "VR3": 3, "VL1": -1, "VL2": -2, "VL3": -3}
    for m, bits in t6.MODE_CODES.items():
        got = _walk(P.MODE, bits)
        seen.append("MODE:" + m)
        if got != want[m]:
            fails.append(("table:MODE", "T.6 mode %s is %s; pdfminer's trie gives %r" % (m, bits, got)))
    got = _walk(P.MODE, t6.EOFB)
    seen.append("MODE:EOFB")
    if got != "e":
        fails.append(("table:MODE", "EOFB leads to %r" % (got,)))
    return fails, seen


# --------------------------------------------------------------------------
# family: pairs (exhaustive mode sequences)
# --------------------------------------------------------------------------
def _line(w: int, i: int) -> List[int]:
    return [(i >> (w - 1 - k)) & 1 for k in range(w)]


def run_pairs(spec: Dict[str, Any], rec, ses: Session) -> None:
    w = spec["w"]
    tier = spec["tier"]
    nfr = _pair_framings(tier, w)
    white = [t6.WHITE] * w
    counter = spec["lo"] * 7  # index of the encoding: rotates framings, styles, filter spellings
    for ri in range(spec["lo"], spec["hi"]):
        ref = _line(w, ri)
        # (a) `ref` as a first line: every admissible encoding against the imaginary white line
        encs = list(t6.enum_row_encodings(white, ref))
        rec.count("exh_first:w%d" % w)
        rec.count("first_line_encodings", len(encs))
        for bits, modes in encs:
            for j in range(nfr):
                al, eo, b1 = FRAMINGS[(counter * nfr + j) % 8]
                cfg = make_cfg(al, eo, b1, style=(counter + j) & 3, form=FORMS[(counter // 2) % len(FORMS)])
                data = t6.frame([bits], al, eo)
                ses.submit(new_case("pairs", w, [ref], data, cfg, [list(modes)]), pdf=(j == counter % nfr))
            counter += 1
            _tally_modes(rec, modes, white, ref)
        # (b) `ref` as the reference line (coded by the flow chart) of every coding line
        rb = t6.encode_row(white, ref)
        std_modes: List[Tuple[str, int, int]] = []
        t6.encode_row(white, ref, t6.choose_std, None, std_modes)
        m0 = [m for m, _, _ in std_modes]
        for ci in range(2 ** w):
            cur = _line(w, ci)
            rec.count("exh_pairs:w%d" % w)
            n = 0
            for bits, modes in t6.enum_row_encodings(ref, cur):
                n += 1
                for j in range(nfr):
                    al, eo, b1 = FRAMINGS[(counter * nfr + j) % 8]
                    cfg = make_cfg(al, eo, b1, style=(counter + j) & 3, form=FORMS[(counter // 2) % len(FORMS)])
                    data = t6.frame([rb, bits], al, eo)
                    if al:
                        _count_align_pad(rec, [rb, bits])
                    ses.submit(new_case("pairs", w, [ref, cur], data, cfg, [m0, list(modes)]), pdf=(j == counter % nfr))
                counter += 1
                _tally_modes(rec, modes, ref, cur)
            rec.count("pair_encodings", n)
            rec.count("pair_encodings_max_bucket_%d" % min(n // 10, 9))


def _tally_modes(rec, modes: Sequence[str], ref: Sequence[int], cur: Sequence[int]) -> None:
    """Count mode codes and deviations of one enumerated encoding (re-derives the steps with a scripted chooser)."""
    stats: Dict[str, int] = {}
    t6.encode_row(ref, cur, _script(list(modes)), stats)
    _absorb(rec, stats)


# --------------------------------------------------------------------------
# family: bitmaps (exhaustive small bitmaps)
# --------------------------------------------------------------------------
def run_bitmaps(spec: Dict[str, Any], rec, ses: Session) -> None:
    w, h = spec["w"], spec["h"]
    rng = random.Random("C19/%d/%d" % (spec["seed"], spec["sub"]))
    for i in range(spec["lo"], spec["hi"]):
        rows = [_line(w, (i >> (w * (h - 1 - r))) & ((1 << w) - 1)) for r in range(h)]
        rec.count("exh_bitmaps:w%dh%d" % (w, h))
        for variant in (0, 1):
            choose = t6.choose_std if variant == 0 else t6.chooser_random(rng, 0.5)
            stats: Dict[str, int] = {}
            traces: List[List[Tuple[str, int, int]]] = []
            ref: Sequence[int] = [t6.WHITE] * w
            rbits = []
            for cur in rows:
                tr: List[Tuple[str, int, int]] = []
                rbits.append(t6.encode_row(ref, cur, choose, stats, tr))
                traces.append(tr)
                ref = cur
            _absorb(rec, stats)
            modes = [[m for m, _, _ in tr] for tr in traces]
            for k, (al, eo, b1) in enumerate(FRAMINGS):
                data = t6.frame(rbits, al, eo)
                if al:
                    _count_align_pad(rec, rbits)
                cfg = make_cfg(al, eo, b1, style=(i + k) & 3, form=ses.next_form())
                ses.submit(new_case("bitmaps", w, rows, data, cfg, modes))


# --------------------------------------------------------------------------
# line generators for the wide families
# --------------------------------------------------------------------------
EDGE_RUNS = [1, 2, 3, 4, 7, 8, 9, 62, 63, 64, 65, 66, 127, 128, 129, 191, 192, 193, 1663, 1664, 1665, 1727, 1728, 1729,
             1791, 1792, 1793, 1855, 1856, 2495, 2496, 2559, 2560, 2561, 2562, 2622, 2623, 2624, 2625, 2687, 2688,
             4351, 4352, 5119, 5120, 5121, 5183, 5184]
EDGE_WIDTHS = [1, 2, 3, 7, 8, 9, 15, 16, 17, 31, 32, 33, 63, 64, 65, 127, 128, 129, 255, 256, 257, 1000, 1727, 1728,
               1729, 1791, 1792, 2047, 2048, 2559, 2560, 2561, 2623, 2624, 2625, 2700, 3000, 4096, 5119, 5120, 5184,
               5200]


def from_changes(ch: Sequence[int], w: int) -> List[int]:
    row = [t6.WHITE] * w
    col = t6.BLACK
    pts = list(ch) + [w]
    for a, b in zip(pts, pts[1:]):
        if col == t6.BLACK:
            for x in range(a, min(b, w)):
                row[x] = t6.BLACK
        col = 1 - col
    return row


def runs_to_row(runs: Sequence[int], first: int, w: int) -> List[int]:
    row: List[int] = []
    c = first
    for n in runs:
        row.extend([c] * n)
        c = 1 - c
        if len(row) >= w:
            break
    if len(row) < w:
        row.extend([c] * (w - len(row)))
    return row[:w]


def gen_line(rng: random.Random, w: int, prev: Optional[List[int]]) -> Tuple[str, List[int]]:
    r = rng.random()
    if prev is not None and r < 0.45:
        return "derived", derive_line(rng, prev, w)
    kind = rng.choice(["white", "black", "stripes", "single", "geo", "geo", "edge_runs", "edge_runs", "copy", "noise"])
    if kind == "white":
        return kind, [t6.WHITE] * w
    if kind == "black":
        return kind, [t6.BLACK] * w
    if kind == "stripes":
        p = rng.choice([1, 1, 2, 3, 4, 7, 8, 9, 63, 64, 65])
        ph = rng.randrange(2 * p)
        return kind, [((x + ph) // p) & 1 for x in range(w)]
    if kind == "single":
        bg = rng.randint(0, 1)
        row = [bg] * w
        for pos in rng.sample([0, w - 1, w // 2, 1 % w, (w - 2) % w], rng.randint(1, 3)):
            row[pos] = 1 - bg
        return kind, row
    if kind == "geo":
        mean = rng.choice([1.3, 2, 4, 10, 40, 200, 1500])
        runs = []
        tot = 0
        while tot < w:
            n = 1 + int(rng.expovariate(1.0 / mean))
            runs.append(n)
            tot += n
        return kind, runs_to_row(runs, rng.randint(0, 1), w)
    if kind == "edge_runs":
        runs = []
        tot = 0
        while tot < w:
            n = rng.choice(EDGE_RUNS) if rng.random() < 0.7 else rng.randint(1, 70)
            runs.append(n)
            tot += n
        return kind, runs_to_row(runs, rng.randint(0, 1), w)
    if kind == "copy" and prev is not None:
        return kind, list(prev)
    return "noise", [1 if rng.random() < 0.5 else 0 for _ in range(w)]


def derive_line(rng: random.Random, prev: List[int], w: int) -> List[int]:
    """Move / delete / insert changing elements of the previous line: drives vertical and pass modes at any width."""
    ch = t6.changes(prev)
    out: List[int] = []
    i = 0
    while i < len(ch):
        r = rng.random()
        if r < 0.12 and i + 1 < len(ch):
            i += 2  # drop a run: pass mode in the coding line
            continue
        d = 0
        if r < 0.75:
            d = rng.choice([-4, -3, -3, -2, -2, -1, -1, 0, 0, 0, 1, 1, 2, 2, 3, 3, 4])
        out.append(ch[i] + d)
        if r > 0.93:
            x = ch[i] + d + rng.randint(1, 6)
            out.extend([x, x + rng.randint(1, 5)])  # extra run: horizontal mode
        i += 1
    if rng.random() < 0.2:
        x = rng.randrange(w)
        out.extend([x, x + rng.randint(1, 70)])
    clean: List[int] = []
    last = -1
    for x in sorted(out):
        if x <= last or x < 0 or x >= w:
            continue
        clean.append(x)
        last = x
    return from_changes(clean, w)


def _submit_rows(ses: Session, rec, family: str, w: int, rows: List[List[int]], choose, cfg: Dict[str, Any],
                 tag: Optional[str] = None) -> None:
    stats: Dict[str, int] = {}
    traces: List[List[Tuple[str, int, int]]] = []
    ref: Sequence[int] = [t6.WHITE] * w
    rbits = []
    for cur in rows:
        tr: List[Tuple[str, int, int]] = []
        rbits.append(t6.encode_row(ref, cur, choose, stats, tr))
        traces.append(tr)
        ref = cur
    _absorb(rec, stats)
    if cfg["align"]:
        _count_align_pad(rec, rbits)
    data = t6.frame(rbits, cfg["align"], cfg["eofb"])
    modes = [[m for m, _, _ in tr] for tr in traces]
    if w >= 1728:
        rec.count("wide_ge_1728")
    if w >= 2624:
        rec.count("wide_ge_2624")
    longest = 0
    for r in rows:
        pts = [0] + t6.changes(r) + [w]
        longest = max(longest, max(b - a for a, b in zip(pts, pts[1:])))
    if longest >= 2624:
        rec.count("run_ge_2624")
    rec.see("width_class", min(w.bit_length(), 13))
    ses.submit(new_case(family, w, rows, data, cfg, modes, tag))


def run_struct(spec: Dict[str, Any], rec, ses: Session) -> None:
    rng = random.Random("C19/%d/%d" % (spec["seed"], spec["sub"]))
    thorough = spec["tier"] == "thorough"
    for _ in range(spec["n"]):
        r = rng.random()
        if r < 0.35:
            w = rng.choice(EDGE_WIDTHS)
        elif r < 0.75:
            w = rng.randint(1, 300)
        else:
            w = rng.randint(300, 5200 if thorough or rng.random() < 0.3 else 2800)
        h = rng.choice([1, 2, 2, 3, 3, 4])
        rows: List[List[int]] = []
        prev: Optional[List[int]] = None
        for _r in range(h):
            kind, row = gen_line(rng, w, prev)
            rec.count("line:" + kind)
            rows.append(row)
            prev = row
        p = rng.choice([0.0, 0.0, 0.15, 0.5, 1.0])
        choose = t6.choose_std if p == 0 else (t6.choose_no_pass if rng.random() < 0.15 else t6.chooser_random(rng, p))
        cfg = make_cfg(rng.random() < 0.5, rng.random() < 0.5, rng.random() < 0.5, rng.randrange(4), ses.next_form())
        _submit_rows(ses, rec, "struct", w, rows, choose, cfg)


# --------------------------------------------------------------------------
# family: codes - every run-length code word of both colours
# --------------------------------------------------------------------------
def code_runs(tier: str) -> List[int]:
    ns = set(range(0, 64))
    for m in range(64, 2561, 64):
        ns.update([m, m + 1, m + 63, m + 17 + (m // 64) % 40])
    ns.update([2624, 2625, 2688, 2560 + 1728 + 63, 5119, 5120, 5121, 5183])
    if tier == "thorough":
        ns.update([5184, 5185, 7679, 7680, 7744, 10240 + 5])
    return sorted(ns)


def run_codes(spec: Dict[str, Any], rec, ses: Session) -> None:
    rng = random.Random("C19/%d/%d" % (spec["seed"], spec["sub"]))
    ns = code_runs(spec["tier"])
    todo = [(c, n) for c in (t6.WHITE, t6.BLACK) for n in ns]
    for idx, (colour, n) in enumerate(todo):
        if idx % spec["parts"] != spec["part"]:
            continue
        # a line in which a run of exactly n pels of `colour` is coded in horizontal mode
        pre = rng.randint(0, 70)
        post = rng.randint(1, 70)
        shapes = []
        if colour == t6.WHITE:
            if n >= 1:
                shapes.append(("mid", [pre + 1, n, post], t6.BLACK))       # B W(n) B
                shapes.append(("start", [n, post], t6.WHITE))              # W(n) B   (first run of the line)
                shapes.append(("end", [pre + 1, n], t6.BLACK))             # B W(n)   (run reaches the end)
            else:
                shapes.append(("zero_start", [post, pre + 1], t6.BLACK))    # line starts black: white run 0
                shapes.append(("zero_end", [pre, post], t6.WHITE))          # black run reaches the end, white run 0
        else:
            if n >= 1:
                shapes.append(("mid", [pre + 1, n, post], t6.WHITE))
                shapes.append(("start", [n, post], t6.BLACK))
                shapes.append(("end", [pre + 1, n], t6.WHITE))
            else:
                shapes.append(("zero_end", [pre + 1], t6.WHITE))            # all white: H codes W(w) B(0)
                shapes.append(("zero_end2", [pre + 1, post], t6.BLACK))     # B W : last step W(post) B(0)
        for name, runs, first in shapes:
            w = sum(runs)
            row = runs_to_row(runs, first, w)
            rec.count("codes_shape:" + name)
            for second in (None, "derived", "same"):
                rows = [row]
                if second == "derived":
                    rows.append(derive_line(rng, row, w))
                elif second == "same":
                    rows.append(list(row))
                for choose in (t6.choose_horizontal, t6.choose_std):
                    cfg = make_cfg(rng.random() < 0.5, rng.random() < 0.5, rng.random() < 0.5, rng.randrange(4),
                                   ses.next_form())
                    _submit_rows(ses, rec, "codes", w, rows, choose, cfg)


# --------------------------------------------------------------------------
# family: tagged sub-families
# --------------------------------------------------------------------------
def run_tagged(spec: Dict[str, Any], rec, ses: Session) -> None:
    rng = random.Random("C19/%d/%d" % (spec["seed"], spec["sub"]))
    # columns_default: exactly a struct case of width 1728, except that /Columns is left out
    for i in range(24):
        w = 1728
        rows: List[List[int]] = []
        prev = None
        for _ in range(rng.choice([1, 2, 3])):
            _k, row = gen_line(rng, w, prev)
            rows.append(row)
            prev = row
        cfg = make_cfg(rng.random() < 0.5, rng.random() < 0.5, rng.random() < 0.5, rng.randrange(4), ses.next_form(),
                       columns=False)
        _submit_rows(ses, rec, "tagged_columns_default", w, rows, t6.chooser_random(rng, 0.2), cfg, tag="columns_default")
        rec.count("tagged:columns_default")
    # k_negative: exactly a struct case, except that K is another negative number
    for i in range(24):
        w = rng.choice([1, 8, 9, 33, 200, 1728])
        rows = []
        prev = None
        for _ in range(rng.choice([1, 2, 3])):
            _k, row = gen_line(rng, w, prev)
            rows.append(row)
            prev = row
        cfg = make_cfg(rng.random() < 0.5, rng.random() < 0.5, rng.random() < 0.5, rng.randrange(4), ses.next_form(),
                       K=rng.choice([-2, -7]))
        _submit_rows(ses, rec, "tagged_k_negative", w, rows, t6.chooser_random(rng, 0.2), cfg, tag="k_negative")
        rec.count("tagged:k_negative")


# --------------------------------------------------------------------------
def run_shard(spec: Dict[str, Any], rec) -> None:
    kind = spec["kind"]
    ses = Session(rec)
    if kind == "tables":
        fails, seen = check_tables()
        for s in seen:
            rec.see("table_entries", s)
        rec.case(None, False)
        for k, d in fails:
            rec.fail(k, {"family": "tables"}, d)
        info = t6.selftest()
        rec.count("t6_selftest_ok")
        rec.count("t6_encoder_vs_reference_decoder_roundtrips", t6.selftest_roundtrip())
        rec.see("t6_kraft", "white=%s black=%s" % (info["kraft_white"], info["kraft_black"]))
    elif kind == "pairs":
        run_pairs(spec, rec, ses)
    elif kind == "bitmaps":
        run_bitmaps(spec, rec, ses)
    elif kind == "codes":
        run_codes(spec, rec, ses)
    elif kind == "struct":
        run_struct(spec, rec, ses)
    elif kind == "tagged":
        run_tagged(spec, rec, ses)
    else:
        raise ValueError(kind)
    ses.flush()


def replay(case: Dict[str, Any]) -> List[Tuple[str, str]]:
    if case.get("family") == "tables":
        return check_tables()[0]
    out: List[Tuple[str, str]] = []
    fail, _v = run_direct(case)
    dkey = None
    if fail is not None:
        dkey = _keyed(case, fail[0])
        out.append((dkey, fail[1]))
    r = run_pdf([case])[0]
    if r is not None:
        k = _keyed(case, r[0])
        if k != dkey:
            out.append((k if dkey is None else "pdf:" + k, r[1]))
    return out


def finish(agg: Dict[str, Any], tier: str) -> Dict[str, Any]:
    c = agg["counters"]
    exh = {}
    complete = True
    for w in range(1, PAIR_W[tier] + 1):
        ok = c.get("exh_pairs:w%d" % w, 0) == 4 ** w and c.get("exh_first:w%d" % w, 0) == 2 ** w
        complete &= ok
        exh["line_pairs_width_%d" % w] = {"pairs": c.get("exh_pairs:w%d" % w, 0), "of": 4 ** w, "complete": ok}
    for w, h in BITMAP_SIZES[tier]:
        ok = c.get("exh_bitmaps:w%dh%d" % (w, h), 0) == 2 ** (w * h)
        complete &= ok
        exh["bitmaps_%dx%d" % (w, h)] = {"bitmaps": c.get("exh_bitmaps:w%dh%d" % (w, h), 0), "of": 2 ** (w * h), "complete": ok}
    return {
        "exhaustive_parts": exh,
        "exhaustive_complete": bool(complete),
        "encodings_enumerated": c.get("pair_encodings", 0) + c.get("first_line_encodings", 0),
        "mode_codes_decoded": {m: c.get("mode:" + m, 0) for m in MODES},
        "deviations_from_flow_chart": {k: c.get("ns:" + k, 0) for k in NS_KINDS},
        "run_length_code_words_seen": {"white": len(agg["seen"].get("codes_W", ())), "black": len(agg["seen"].get("codes_B", ())), "of": 104},
    }
