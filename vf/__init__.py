"""Runtime-monitoring verification machinery for pdfminer.six (see /verif/DESIGN.md).

Importing :mod:`vf` puts the repository under test first on ``sys.path`` so
that every check executes the *current working tree* of ``/repo`` (or of the
tree named by ``VERIF_REPO``, which is how the machinery is run against
scratch worktrees carrying seeded defects without touching ``/repo``).
"""
import os
import sys

VERIF_ROOT = os.path.dirname(os.path.dirname(os.path.abspath(__file__)))
REPO = os.path.realpath(os.environ.get("VERIF_REPO", "/repo"))

if REPO not in sys.path[:1]:
    sys.path.insert(0, REPO)

sys.dont_write_bytecode = True
