"""Shared helpers: JSON-able case encoding, hashing, the per-shard Recorder and
the logical step-budget monitor (sys.monitoring LINE events inside pdfminer)."""
from __future__ import annotations

import hashlib
import json
import os
import sys
import time
from typing import Any, Callable, Dict, List, Optional

from vf import REPO

PDFMINER_DIR = os.path.join(REPO, "pdfminer") + os.sep


# --------------------------------------------------------------------------
# JSON-able encoding of cases (bytes are not JSON; replay files must be exact)
# --------------------------------------------------------------------------
def enc(x: Any) -> Any:
    """Encode a python value into something json.dumps accepts, reversibly."""
    if isinstance(x, (bytes, bytearray)):
        return {"$b": bytes(x).hex()}
    if isinstance(x, tuple):
        return {"$t": [enc(v) for v in x]}
    if isinstance(x, list):
        return [enc(v) for v in x]
    if isinstance(x, (set, frozenset)):
        return {"$s": sorted((enc(v) for v in x), key=lambda v: json.dumps(v, sort_keys=True))}
    if isinstance(x, dict):
        if all(isinstance(k, str) for k in x) and not any(k.startswith("$") for k in x):
            return {k: enc(v) for k, v in x.items()}
        return {"$d": [[enc(k), enc(v)] for k, v in x.items()]}
    if isinstance(x, float):
        if x != x or x in (float("inf"), float("-inf")):
            return {"$f": repr(x)}
        return x
    if x is None or isinstance(x, (bool, int, str)):
        return x
    from fractions import Fraction

    if isinstance(x, Fraction):
        return {"$q": [x.numerator, x.denominator]}
    return {"$r": repr(x)}


def dec(x: Any) -> Any:
    if isinstance(x, list):
        return [dec(v) for v in x]
    if isinstance(x, dict):
        if len(x) == 1:
            (k, v), = x.items()
            if k == "$b":
                return bytes.fromhex(v)
            if k == "$t":
                return tuple(dec(i) for i in v)
            if k == "$s":
                return set(dec(i) for i in v)
            if k == "$d":
                return {dec(a): dec(b) for a, b in v}
            if k == "$f":
                return float(v)
            if k == "$q":
                from fractions import Fraction

                return Fraction(v[0], v[1])
            if k == "$r":
                return v
        return {k: dec(v) for k, v in x.items()}
    return x


def chash(*parts: Any) -> str:
    """Canonical short hash of a case (for counting distinct cases)."""
    h = hashlib.blake2b(digest_size=8)
    for p in parts:
        if isinstance(p, (bytes, bytearray)):
            h.update(b"B")
            h.update(bytes(p))
        else:
            h.update(b"J")
            h.update(json.dumps(enc(p), sort_keys=True, default=repr).encode())
        h.update(b"\0")
    return h.hexdigest()


def short(x: Any, n: int = 300) -> str:
    s = x if isinstance(x, str) else repr(x)
    return s if len(s) <= n else s[: n - 20] + "...<%d more>" % (len(s) - n + 20)


# --------------------------------------------------------------------------
# Recorder: what a shard observed
# --------------------------------------------------------------------------
class Recorder:
    """Collects what the monitors of one shard observed.

    evaluations   number of oracle evaluations (rec.case calls)
    hashes        canonical hashes of the distinct *non-trivial* cases
    counters      named integer counters (summed over shards)
    seen          named sets of small values (unioned over shards)
    samples       a few actual cases, written into the evidence file
    failures      violations: {"key", "case", "detail"}; `case` must be enough
                  for the check's replay() to re-run it
    inconclusive  {"reason": count}
    """

    MAX_SAMPLES = 4
    MAX_FAILS_PER_KEY = 3

    def __init__(self) -> None:
        self.evaluations = 0
        self.hashes: set = set()
        self.counters: Dict[str, int] = {}
        self.seen: Dict[str, set] = {}
        self.samples: List[Any] = []
        self.failures: List[Dict[str, Any]] = []
        self.fail_counts: Dict[str, int] = {}
        self.inconc: Dict[str, int] = {}
        self.t0 = time.time()

    def case(self, h: Optional[str], nontrivial: bool = True, n: int = 1) -> None:
        self.evaluations += n
        if nontrivial and h is not None:
            self.hashes.add(h)

    def count(self, name: str, n: int = 1) -> None:
        self.counters[name] = self.counters.get(name, 0) + n

    def see(self, name: str, value: Any) -> None:
        s = self.seen.get(name)
        if s is None:
            s = self.seen[name] = set()
        if len(s) < 5000:
            s.add(value)

    def sample(self, obj: Any) -> None:
        if len(self.samples) < self.MAX_SAMPLES:
            self.samples.append(enc(obj))

    def want_sample(self) -> bool:
        return len(self.samples) < self.MAX_SAMPLES

    def fail(self, key: str, case: Any, detail: Any) -> None:
        n = self.fail_counts.get(key, 0)
        self.fail_counts[key] = n + 1
        if n < self.MAX_FAILS_PER_KEY:
            self.failures.append({"key": key, "case": enc(case), "detail": short(detail, 2000)})

    def inconclusive(self, reason: str, n: int = 1) -> None:
        self.inconc[reason] = self.inconc.get(reason, 0) + n

    def dump(self) -> Dict[str, Any]:
        return {
            "evaluations": self.evaluations,
            "hashes": sorted(self.hashes),
            "counters": self.counters,
            "seen": {k: sorted(map(str, v)) for k, v in self.seen.items()},
            "samples": self.samples,
            "failures": self.failures,
            "fail_counts": self.fail_counts,
            "inconclusive": self.inconc,
            "wall_s": time.time() - self.t0,
        }


# --------------------------------------------------------------------------
# Step budget: bounded progress instead of "terminates"
# --------------------------------------------------------------------------
class StepBudgetExceeded(BaseException):
    """Raised inside pdfminer code when the LINE-event budget is exhausted.

    BaseException so that the library's own ``except Exception`` handlers cannot
    swallow it."""


class _Steps:
    TOOL = sys.monitoring.PROFILER_ID

    def __init__(self) -> None:
        self.count = 0
        self.budget = 0
        self.active = False
        self._registered = False

    def _cb(self, code, line):  # noqa: ANN001
        if not code.co_filename.startswith(PDFMINER_DIR):
            return sys.monitoring.DISABLE
        self.count += 1
        if self.count > self.budget and self.active:
            self.active = False  # raise once
            raise StepBudgetExceeded(
                "step budget %d exceeded at %s:%d" % (self.budget, code.co_filename, line)
            )
        return None

    def run(self, fn: Callable[[], Any], budget: int) -> Any:
        """Run fn() counting executed pdfminer source lines; raise
        StepBudgetExceeded once more than `budget` lines ran."""
        mon = sys.monitoring
        if not self._registered:
            mon.use_tool_id(self.TOOL, "vf-steps")
            mon.register_callback(self.TOOL, mon.events.LINE, self._cb)
            self._registered = True
        self.count = 0
        self.budget = budget
        self.active = True
        mon.set_events(self.TOOL, mon.events.LINE)
        try:
            return fn()
        finally:
            mon.set_events(self.TOOL, 0)
            self.active = False


STEPS = _Steps()


def run_with_budget(fn: Callable[[], Any], budget: int) -> Any:
    return STEPS.run(fn, budget)


def last_steps() -> int:
    return STEPS.count


# --------------------------------------------------------------------------
# misc
# --------------------------------------------------------------------------
def quiet_logging() -> None:
    import logging

    logging.disable(logging.CRITICAL)


def tier_pick(tier: str, quick: Any, thorough: Any) -> Any:
    return quick if tier == "quick" else thorough
